"""Variant catalogue (DESIGN Appendix C).  Each entry: property, name, file, old text, new text, expected rule
(None = benign: every rule must stay silent).  Edits are applied to a scratch copy only."""
from .variants import Variant as V

GEN = "stubs_generator/_stub_string_generator.py"
HELP = "stubs_generator/_helper.py"
GS = "stubs_generator/_generate_stubs.py"
VIS = "api_analyzer/_ast_visitor.py"
MH = "api_analyzer/_mypy_helpers.py"
TY = "api_analyzer/_types.py"
API = "api_analyzer/_api.py"
WALK = "api_analyzer/_ast_walker.py"
GA = "api_analyzer/_get_api.py"
DP = "docstring_parsing/_docstring_parser.py"

VARIANTS = [
    # ------------------------------------------------------------------ C19
    V("C19", "delete SetType arm", TY, "            case SetType.__name__:\n                return SetType.from_dict(d)\n", "", "C19.KIND-DISPATCH"),
    V("C19", "wrong delegate", TY, "return ListType.from_dict(d)", "return SetType.from_dict(d)", "C19.KIND-DISPATCH"),
    V("C19", "FinalType reads other key", TY, 'FinalType(AbstractType.from_dict(d["type"]))', 'FinalType(AbstractType.from_dict(d["type_"]))', "C19.KEY-AGREEMENT"),
    V("C19", "DictType swaps keys on read", TY, 'DictType(AbstractType.from_dict(d["key_type"]), AbstractType.from_dict(d["value_type"]))',
      'DictType(AbstractType.from_dict(d["value_type"]), AbstractType.from_dict(d["key_type"]))', "C19.KEY-AGREEMENT"),
    V("C19", "UnionType hash by tuple", TY, "return hash(frozenset(self.types))", "return hash(tuple(self.types))", "C19.EQ-HASH"),
    V("C19", "NamedType eq ignores qname", TY, "return self.name == other.name and self.qname == other.qname", "return self.name == other.name", "C19.EQ-HASH"),
    V("C19", "TypeVar bound unparsed", TY, "AbstractType.from_dict(upper_bound) if upper_bound is not None else None", "upper_bound", "C19.NESTED-PARSE"),
    V("C19", "CallableType return unparsed", TY, 'return CallableType(params, AbstractType.from_dict(d["return_type"]))', 'return CallableType(params, d["return_type"])', "C19.NESTED-PARSE"),
    V("C19", "kind written as literal of other class", TY, 'return {"kind": self.__class__.__name__, "types": type_list}', 'return {"kind": "ListType", "types": type_list}', "C19.KIND-DISPATCH"),
    V("C19", "unparse round trip", TY, "<<unparse>>", "", None),
    V("C19", "benign: NamedType eq reordered", TY, "return self.name == other.name and self.qname == other.qname", "return self.qname == other.qname and self.name == other.name", None),
    V("C19", "benign: explicit kind literal", TY, 'return {"kind": self.__class__.__name__, "name": self.name, "qname": self.qname}', 'return {"kind": "NamedType", "name": self.name, "qname": self.qname}', None),
    # ------------------------------------------------------------------ C06
    V("C06", "drop ARG_NAMED_OPT", MH, "elif arg.kind in (ArgKind.ARG_NAMED, ArgKind.ARG_NAMED_OPT):", "elif arg.kind == ArgKind.ARG_NAMED:", "C06.ARGKIND-TABLE"),
    V("C06", "pos_only swapped", MH, "arg.kind in {ArgKind.ARG_POS, ArgKind.ARG_OPT} and arg.pos_only", "arg.kind in {ArgKind.ARG_POS, ArgKind.ARG_OPT} and not arg.pos_only", "C06.ARGKIND-TABLE"),
    V("C06", "skip kwargs in visitor", VIS, "            arg_name = argument.variable.name\n            arg_kind = get_argument_kind(argument)\n",
      "            arg_name = argument.variable.name\n            arg_kind = get_argument_kind(argument)\n            if arg_kind == ParameterAssignment.NAMED_VARARG and initializer is None and arg_type is None:\n                continue\n", "C06.ONE-PER-PARAM"),
    V("C06", "is_instance_method=is_method", GEN, "is_instance_method=not is_static and is_method,", "is_instance_method=is_method,", "C06.RECEIVER"),
    V("C06", "never mark first loop skipped", GEN, "                first_loop_skipped = True\n                continue", "                continue", "C06.RECEIVER"),
    V("C06", "swap true/false", GEN, 'default_value = "true" if param_default_value else "false"', 'default_value = "false" if param_default_value else "true"', "C06.DEFAULT-RENDER"),
    V("C06", "bool test after number", GEN, "                    elif isinstance(param_default_value, bool):\n                        # Bool values have to be written in lower case\n                        default_value = \"true\" if param_default_value else \"false\"\n                    elif param_default_value is None:",
      "                    elif isinstance(param_default_value, int):\n                        default_value = f\"{param_default_value}\"\n                    elif isinstance(param_default_value, bool):\n                        default_value = \"true\" if param_default_value else \"false\"\n                    elif param_default_value is None:", "C06.DEFAULT-RENDER"),
    V("C06", "optional by truthiness", VIS, "is_optional=default_value is not None or default_is_none,", "is_optional=bool(default_value) or default_is_none,", "C06.ONE-PER-PARAM"),
    V("C06", "to_dict kind by value", API, '"assigned_by": self.assigned_by.name,', '"assigned_by": self.name,', "C06.SERIALISE"),
    V("C06", "False default lost", MH, '            case "False":\n                return False\n', '            case "False":\n                return None\n', "C06.LITERAL-VALUE"),
    V("C06", "unparse round trip", GEN, "<<unparse>>", "", None),
    V("C06", "benign: kind test as equality chain", MH, "elif arg.kind in (ArgKind.ARG_NAMED, ArgKind.ARG_NAMED_OPT):", "elif arg.kind == ArgKind.ARG_NAMED or arg.kind == ArgKind.ARG_NAMED_OPT:", None),
    # ------------------------------------------------------------------ C20
    V("C20", "flush before rendering parameters", GEN, "        # Parameters\n        func_params = self._create_parameter_string(\n            parameters=function.parameters,",
      "        todo_first = self._create_todo_msg(indentations)\n        func_params = self._create_parameter_string(\n            parameters=function.parameters,", "C20.FLUSH"),
    V("C20", "early flush replaces final flush", GEN, "            f\"{self._create_todo_msg(indentations)}\"\n            f\"{docstring}\"\n            f\"{indentations}@Pure\\n\"", "            f\"{docstring}\"\n            f\"{indentations}@Pure\\n\"", "C20.FLUSH"),
    V("C20", "variadic for NAME_ONLY", GEN, "if assigned_by in {ParameterAssignment.POSITIONAL_VARARG, ParameterAssignment.NAMED_VARARG}:", "if assigned_by in {ParameterAssignment.POSITIONAL_VARARG, ParameterAssignment.NAMED_VARARG, ParameterAssignment.NAME_ONLY}:", "C20.GUARDS"),
    V("C20", "marker without message", GEN, "            key_data = self._create_type_string(type_data[\"key_type\"])", "            self._current_todo_msgs.add(\"no dict support\")\n            key_data = self._create_type_string(type_data[\"key_type\"])", "C20.MARKER-TABLE"),
    V("C20", "no reset at module start", GEN, "        self._current_todo_msgs: set[str] = set()\n        return self._create_module_string(module)", "        return self._create_module_string(module)", "C20.RESET"),
    V("C20", "flush does not clear", GEN, "        # Empty the message list\n        self._current_todo_msgs = set()\n", "", "C20.FLUSH"),
    V("C20", "OPT_POS_ONLY by default value", GEN, "ParameterAssignment.POSITION_ONLY and parameter.is_optional", "ParameterAssignment.POSITION_ONLY and parameter.default_value is not None", "C20.GUARDS"),
    V("C20", "class todo flushed after attributes", GEN, "        class_signature_todo = self._create_todo_msg(class_indentation)\n\n        # Attributes\n        class_text, added_class_attributes = self._create_class_attribute_string(class_.attributes, inner_indentations)\n",
      "        # Attributes\n        class_text, added_class_attributes = self._create_class_attribute_string(class_.attributes, inner_indentations)\n        class_signature_todo = self._create_todo_msg(class_indentation)\n", "C20.FLUSH"),
    V("C20", "set marker only with args", GEN, "            if name == \"Set\":\n                self._current_todo_msgs.add(\"no set support\")", "            if name == \"Set\" and types:\n                self._current_todo_msgs.add(\"no set support\")", "C20.GUARDS"),
    V("C20", "unparse round trip", GEN, "<<unparse>>", "", None),
    V("C20", "benign: guard as equality chain", GEN, "if assigned_by in {ParameterAssignment.POSITIONAL_VARARG, ParameterAssignment.NAMED_VARARG}:", "if assigned_by == ParameterAssignment.POSITIONAL_VARARG or assigned_by == ParameterAssignment.NAMED_VARARG:", None),
    V("C20", "benign: extra unused table key", GEN, '                "unknown": "Unknown type - Type could not be parsed.",', '                "unknown": "Unknown type - Type could not be parsed.",\n                "spare": "Unused.",', None),
    # ------------------------------------------------------------------ C05
    V("C05", "swap Int/Float", GEN, '                case "int":\n                    return "Int"', '                case "int":\n                    return "Float"', "C05.LEAF-TABLE"),
    V("C05", "Sequence to SetType", VIS, '                    case "Sequence":\n                        return sds_types.ListType(types=types)', '                    case "Sequence":\n                        return sds_types.SetType(types=types)', "C05.CTOR-TABLE"),
    V("C05", "FinalType raw child", GEN, '            return self._create_type_string(type_data["type"])', '            return str(type_data["type"])', "C05.KIND-RENDER"),
    V("C05", "union list comprehension", GEN, 'types = list({self._create_type_string(type_) for type_ in type_data["types"]})', 'types = [self._create_type_string(type_) for type_ in type_data["types"]]', "C05.UNION-NORMAL"),
    V("C05", "union no sort", GEN, '            types.sort()\n\n            if types:\n                if len(types) == 2 and none_type_name in types and has_named_type:', '            if types:\n                if len(types) == 2 and none_type_name in types and has_named_type:', "C05.UNION-NORMAL"),
    V("C05", "dict value untranslated", GEN, '            value_data = self._create_type_string(type_data["value_type"])', '            value_data = type_data["value_type"]["kind"]', "C05.RECURSE"),
    V("C05", "dict key/value swapped in visitor", VIS, "                    key_type=self.mypy_type_to_abstract_type(mypy_type.args[0]),\n                    value_type=self.mypy_type_to_abstract_type(mypy_type.args[1]),", "                    key_type=self.mypy_type_to_abstract_type(mypy_type.args[1]),\n                    value_type=self.mypy_type_to_abstract_type(mypy_type.args[0]),", "C05.CTOR-TABLE"),
    V("C05", "nullable for 3 members", GEN, "if len(types) == 2 and none_type_name in types and has_named_type:", "if len(types) >= 2 and none_type_name in types and has_named_type:", "C05.UNION-NORMAL"),
    V("C05", "none test self-conjunction", GEN, 'type_["kind"] == "NamedType" and type_["qname"] == "builtins.None" for type_ in type_data["types"]', 'type_["kind"] == "NamedType" and type_["kind"] for type_ in type_data["types"]', "C05.NONE-TEST"),
    V("C05", "callable args untranslated", VIS, "parameter_types=[self.mypy_type_to_abstract_type(arg_type) for arg_type in mypy_type.arg_types],", "parameter_types=[sds_types.NamedType(name=str(arg_type), qname=str(arg_type)) for arg_type in mypy_type.arg_types],", "C05.CTOR-TABLE"),
    V("C05", "tuple rendered as List", GEN, '            return f"Tuple<{\', \'.join(types)}>"', '            return f"List<{\', \'.join(types)}>"', "C05.KIND-RENDER"),
    V("C05", "unparse round trip", GEN, "<<unparse>>", "", None),
    V("C05", "benign: leaf match as if-chain", GEN, '                case "int":\n                    return "Int"\n                case "str":\n                    return "String"', '                case "int":\n                    return "Int"\n                case "str" if True:\n                    return "String"', None),
    # ------------------------------------------------------------------ C07
    V("C07", "stop descending if-else", MH, "            if stmt.else_body:\n                return_stmts += find_return_stmts_recursive(stmt.else_body.body)\n        elif isinstance(stmt, mp_nodes.Block):", "        elif isinstance(stmt, mp_nodes.Block):", "C07.RETURN-FINDER"),
    V("C07", "drop WithStmt arm", MH, "        elif isinstance(stmt, mp_nodes.WithStmt):\n            return_stmts += find_return_stmts_recursive(stmt.body.body)\n", "", "C07.RETURN-FINDER"),
    V("C07", "skip unreachable blocks", MH, "        elif isinstance(stmt, mp_nodes.Block):\n            return_stmts += find_return_stmts_recursive(stmt.body)", "        elif isinstance(stmt, mp_nodes.Block):\n            if stmt.is_unreachable:\n                continue\n            return_stmts += find_return_stmts_recursive(stmt.body)", "C07.RETURN-FINDER"),
    V("C07", "float literal inferred as int", MH, 'return sds_types.NamedType(name="float", qname="builtins.float")', 'return sds_types.NamedType(name="int", qname="builtins.int")', "C07.INFER-TABLE"),
    V("C07", "result named by constant", VIS, "                result_name = result_docstring.name or next(name_generator)\n\n                all_results.append(", '                result_name = result_docstring.name or "result"\n\n                all_results.append(', "C07.RESULT-NAMES"),
    V("C07", "id uses other name", VIS, '                        id=f"{function_id}/{result_name}",\n                        type=type_,\n                        name=f"{result_name}",\n                    ),\n                )\n        else:', '                        id=f"{function_id}/{function_id}",\n                        type=type_,\n                        name=f"{result_name}",\n                    ),\n                )\n        else:', "C07.RESULT-NAMES"),
    V("C07", "generator starts at 0", VIS, "for x in range(1, 1000):", "for x in range(0, 1000):", "C07.RESULT-NAMES"),
    V("C07", "None suppressed only as sole result", GEN, '            if result_type["kind"] == "NamedType" and result_type["qname"] == "builtins.None":\n                return ""', '            if len(function_results) == 1 and result_type["kind"] == "NamedType" and result_type["qname"] == "builtins.None":\n                return ""', "C07.NONE-SUPPRESS"),
    V("C07", "constructor gets results", VIS, '        if node.name == "__init__":\n            return []\n\n        # Get type', '        # Get type', "C07.NONE-SUPPRESS"),
    V("C07", "inferred type not collected", VIS, "                        type_ = mypy_expression_to_sds_type(return_stmt.expr)\n                        if isinstance(type_, sds_types.NamedType | sds_types.TupleType):\n                            types.add(type_)", "                        type_ = mypy_expression_to_sds_type(return_stmt.expr)\n                        if isinstance(type_, sds_types.NamedType):\n                            types.add(type_)", "C07.INFER-COLLECT"),
    V("C07", "unparse round trip", VIS, "<<unparse>>", "", None),
    V("C07", "benign: while/for split", MH, "        elif isinstance(stmt, mp_nodes.WhileStmt | mp_nodes.ForStmt):", "        elif isinstance(stmt, (mp_nodes.WhileStmt, mp_nodes.ForStmt)):", None),
    # ------------------------------------------------------------------ C14
    V("C14", "skip override when warnings ignored", VIS, "            if doc_type is not None and (\n                code_type is None or self.type_source_preference == TypeSourcePreference.DOCSTRING\n            ):", "            if doc_type is not None and self.type_source_warning == TypeSourceWarning.WARN and (\n                code_type is None or self.type_source_preference == TypeSourcePreference.DOCSTRING\n            ):", "C14."),
    V("C14", "prefer docstring under CODE", VIS, "code_type is None or self.type_source_preference == TypeSourcePreference.DOCSTRING", "code_type is None or self.type_source_preference == TypeSourcePreference.CODE", "C14.DECISION"),
    V("C14", "result compares object", VIS, "and result_type.type != result_doc_type", "and result_type != result_doc_type", "C14.DECISION"),
    V("C14", "warn only for identical", VIS, "                and code_type != doc_type\n", "                and code_type == doc_type\n", "C14.DECISION"),
    V("C14", "preference consulted for names", VIS, "            result_name = result_docstrings[0].name or next(name_generator)", "            result_name = (result_docstrings[0].name if self.type_source_preference == TypeSourcePreference.DOCSTRING else \"\") or next(name_generator)", "C14.PREF-SLICE"),
    V("C14", "result override under CODE", VIS, "                elif self.type_source_preference == TypeSourcePreference.DOCSTRING:\n                    # Overwrite", "                elif self.type_source_preference == TypeSourcePreference.CODE:\n                    # Overwrite", "C14.DECISION"),
    V("C14", "warning block mutates", VIS, "                msg = f\"Different type hint and docstring types for '{function_id}'.\"\n                logging.warning(msg)", "                msg = f\"Different type hint and docstring types for '{function_id}'.\"\n                logging.warning(msg)\n                parameters[i] = dataclasses.replace(parameter, type=None)", "C14."),
    V("C14", "unparse round trip", VIS, "<<unparse>>", "", None),
    # ------------------------------------------------------------------ C15
    V("C15", "add testing", GA, '"docs" in file_path.parts', '"docs" in file_path.parts or "testing" in file_path.parts', "C15.EXCLUDE-TABLE"),
    V("C15", "substring test", GA, '"test" in file_path.parts', '"test" in str(file_path)', "C15.EXCLUDE-TABLE"),
    V("C15", "docs not excluded", GA, ' or "docs" in file_path.parts', "", "C15.EXCLUDE-TABLE"),
    V("C15", "filter only modules", GA, '        # Check if the current path is a test directory\n        if not is_test_run and ("test" in file_path.parts or "tests" in file_path.parts or "docs" in file_path.parts):\n            log_msg = f"Skipping test file in {file_path}"\n            logging.info(log_msg)\n            continue\n\n        # Check if the current file is an init file\n        if file_path.parts[-1] == "__init__.py":\n            # if a directory contains an __init__.py file it\'s a package\n            package_paths.append(\n                str(file_path.parent),\n            )\n            continue\n',
      '        # Check if the current file is an init file\n        if file_path.parts[-1] == "__init__.py":\n            # if a directory contains an __init__.py file it\'s a package\n            package_paths.append(\n                str(file_path.parent),\n            )\n            continue\n\n        # Check if the current path is a test directory\n        if not is_test_run and ("test" in file_path.parts or "tests" in file_path.parts or "docs" in file_path.parts):\n            log_msg = f"Skipping test file in {file_path}"\n            logging.info(log_msg)\n            continue\n', "C15.EXCLUDE-TABLE"),
    V("C15", "non recursive glob", GA, 'root.glob(pattern="./**/*.py")', 'root.glob(pattern="./*.py")', "C15.GLOB"),
    V("C15", "flag consulted in walker loop", GA, "    for tree in mypy_asts:\n        walker.walk(tree=tree)", "    for tree in mypy_asts:\n        if is_test_run or \"conftest\" not in tree.path:\n            walker.walk(tree=tree)", "C15.FLAG-SLICE"),
    V("C15", "all init asts taken", GA, "            if ast_package_path in package_paths:\n                package_ast.append(ast)", "            package_ast.append(ast)", "C15.AST-FILTER"),
    V("C15", "unparse round trip", GA, "<<unparse>>", "", None),
    V("C15", "benign: set membership", GA, '("test" in file_path.parts or "tests" in file_path.parts or "docs" in file_path.parts)', '(not {"test", "tests", "docs"}.isdisjoint(file_path.parts))', None),
    # ------------------------------------------------------------------ C02
    V("C02", "delete keyword val", HELP, '        "val",\n', "", "C02.KW-TABLE"),
    V("C02", "misspell yield", HELP, '        "yield",', '        "yeld",', "C02.KW-TABLE"),
    V("C02", "no escaper for parameters", GEN, "            camel_case_name = _replace_if_safeds_keyword(camel_case_name)\n\n            # Create string and append to the list", "            # Create string and append to the list", "C02.NAME-PIPELINE"),
    V("C02", "no escaper for attributes", GEN, "            attr_name_camel_case = _replace_if_safeds_keyword(attr_name_camel_case)\n", "", "C02.NAME-PIPELINE"),
    V("C02", "no escaper for import names", GEN, "            name = _replace_if_safeds_keyword(name)\n", "", "C02.NAME-PIPELINE"),
    V("C02", "escape before conversion", GEN, "                type_var_name = _convert_name_to_convention(type_var.name, self.naming_convention)\n                type_var_name = _replace_if_safeds_keyword(type_var_name)", "                type_var_name = _convert_name_to_convention(_replace_if_safeds_keyword(type_var.name), self.naming_convention)", "C02.NAME-PIPELINE"),
    V("C02", "path escaped as one string", GEN, "            from_ = _replace_if_safeds_keyword_in_path(from_)", "            from_ = _replace_if_safeds_keyword(from_)", "C02.NAME-PIPELINE"),
    V("C02", "class brace not closed", GEN, '        class_text += f"{class_indentation}}}"\n', "", "C02.DYCK"),
    V("C02", "parameter paren not closed", GEN, '            f"({func_params}){result_string}"', '            f"({func_params}{result_string}"', "C02.DYCK"),
    V("C02", "literal bracket not closed", GEN, """            return f"literal<{', '.join(types)}>\"""", """            return f"literal<{', '.join(types)}\"""", "C02.DYCK"),
    V("C02", "imports before package", GEN, '        module_header += self._create_imports_string()\n\n        return f"{docstring}{module_header}{module_text}", package_info', '        module_header = self._create_imports_string() + module_header\n\n        return f"{docstring}{module_header}{module_text}", package_info', "C02.HEADER"),
    V("C02", "todo block without final newline", GEN, '        return indentations + f"\\n{indentations}".join(todo_msgs) + "\\n"', '        return indentations + f"\\n{indentations}".join(todo_msgs)', "C02.TODO-LINES"),
    V("C02", "docstring comment not closed", GEN, '        return f"{indentations}/**\\n{indentations} * {full_docstring}{indentations} */\\n"', '        return f"{indentations}/**\\n{indentations} * {full_docstring}{indentations}\\n"', "C02."),
    V("C02", "unparse round trip", GEN, "<<unparse>>", "", None),
    V("C02", "benign: extra keyword", HELP, '        "yield",', '        "yield",\n        "match",', None),
    V("C02", "benign: temp around pipeline", GEN, "            camel_case_name = _replace_if_safeds_keyword(camel_case_name)\n\n            # Create string and append to the list", "            escaped_name = _replace_if_safeds_keyword(camel_case_name)\n            camel_case_name = escaped_name\n\n            # Create string and append to the list", None),
    # ------------------------------------------------------------------ C09
    V("C09", "convention chooses indentation", GEN, "        inner_indentations = class_indentation + INDENTATION\n\n        # Constructor parameter", "        inner_indentations = class_indentation + (INDENTATION if self.naming_convention == NamingConvention.PYTHON else \"  \")\n\n        # Constructor parameter", "C09.FLAG-SLICE"),
    V("C09", "function annotation unconditional", GEN, "        if camel_case_name != name:\n            function_name_annotation = f\"{indentations}{_create_name_annotation(name)}\\n\"", "        if True:\n            function_name_annotation = f\"{indentations}{_create_name_annotation(name)}\\n\"", "C09.ANNOT-IFF-DIFF"),
    V("C09", "class compare after escaping", GEN, "        class_name_camel_case = _convert_name_to_convention(class_name, self.naming_convention, is_class_name=True)\n        if class_name_camel_case != class_name:", "        class_name_camel_case = _replace_if_safeds_keyword(_convert_name_to_convention(class_name, self.naming_convention, is_class_name=True))\n        if class_name_camel_case != class_name:", "C09.ANNOT-IFF-DIFF"),
    V("C09", "parameter annotation inverted", GEN, "            if camel_case_name != name:\n                # Memorize the changed name", "            if camel_case_name == name:\n                # Memorize the changed name", "C09.ANNOT-IFF-DIFF"),
    V("C09", "module annotation dropped", GEN, "        if package_info != package_info_camel_case:\n            module_name_info = f'@PythonModule(\"{package_info}\")\\n'\n        module_header = f\"{module_name_info}package {_replace_if_safeds_keyword_in_path(package_info_camel_case)}\\n\"\n\n        # Create docstring", "        module_header = f\"{module_name_info}package {_replace_if_safeds_keyword_in_path(package_info_camel_case)}\\n\"\n\n        # Create docstring", "C09.ANNOT-IFF-DIFF"),
    V("C09", "PYTHON path converts", HELP, '    if not name.strip("_") or naming_convention == NamingConvention.PYTHON:\n        return name', '    if not name.strip("_"):\n        return name', "C09.OFF-IDENTITY"),
    V("C09", "class declared lowerCamel", GEN, "class_name_camel_case = _convert_name_to_convention(class_name, self.naming_convention, is_class_name=True)", "class_name_camel_case = _convert_name_to_convention(class_name, self.naming_convention)", "C09."),
    V("C09", "result name unconverted", GEN, "            result_name = _convert_name_to_convention(result.name, self.naming_convention)\n", "            result_name = result.name\n", "C09."),
    V("C09", "unparse round trip", GEN, "<<unparse>>", "", None),
    # ------------------------------------------------------------------ C17
    V("C17", "private bases named in sub", GEN, "                if not is_internal_superclass:\n                    self._add_to_imports(superclass)", "                if True:\n                    self._add_to_imports(superclass)", "C17.BRANCH"),
    V("C17", "sub list as set", GEN, ["        superclass_names = []\n", "superclass_names.append(_replace_if_safeds_keyword(superclass_name))"],
      ["        superclass_names = set()\n", "superclass_names.add(_replace_if_safeds_keyword(superclass_name))"], "C17.BRANCH"),
    V("C17", "superclass not imported", GEN, "                    self._add_to_imports(superclass)\n                    superclass_names.append", "                    superclass_names.append", "C17.BRANCH"),
    V("C17", "own names computed after loop", GEN, "        already_defined_names: set[str] = added_class_attributes.union(added_class_methods)\n", "        already_defined_names: set[str] = set()\n", "C17.OWN-FIRST"),
    V("C17", "recursion gets only this level", GEN, "        already_defined_names = already_defined_names.union(existing_names)\n", "        already_defined_names = existing_names\n", "C17.RECURSE"),
    V("C17", "recursion through public ancestors too", GEN, "            name = superclass_superclass.split(\".\")[-1]\n            if is_internal(name):", "            name = superclass_superclass.split(\".\")[-1]\n            if name:", "C17.RECURSE"),
    V("C17", "filter on converted name", GEN, "                or method.name in already_defined_names\n", "                or _convert_name_to_convention(method.name, self.naming_convention) in already_defined_names\n", "C17.FILTER"),
    V("C17", "inlined private-name methods shown", GEN, "and (not is_internal_class or (is_internal_class and is_internal(method.name)))", "and not is_internal_class", "C17.FILTER"),
    V("C17", "no exact lookup", GEN, "        if class_qname in self.api.classes:\n            return self.api.classes[class_qname]\n", "", "C17.LOOKUP-EXACT"),
    V("C17", "unparse round trip", GEN, "<<unparse>>", "", None),
    V("C17", "benign: union by operator", GEN, "        already_defined_names = already_defined_names.union(existing_names)\n", "        already_defined_names = already_defined_names | existing_names\n", None),
    # ------------------------------------------------------------------ C03
    V("C03", "Decorator not selected in classes", WALK, 'else {"AssignmentStmt", "FuncDef", "ClassDef", "Decorator", "OverloadedFuncDef"}', 'else {"AssignmentStmt", "FuncDef", "ClassDef", "OverloadedFuncDef"}', "C03.CHILD-KINDS"),
    V("C03", "ClassDef not selected at module level", WALK, 'if _def.__class__.__name__ in {"FuncDef", "ClassDef", "Decorator", "OverloadedFuncDef"}', 'if _def.__class__.__name__ in {"FuncDef", "Decorator", "OverloadedFuncDef"}', "C03.CHILD-KINDS"),
    V("C03", "overload impl only", WALK, "node = node.impl if node.impl is not None else node.items[0]", "node = node.impl", "C03.UNWRAP"),
    V("C03", "method not added to class", VIS, "                else:\n                    parent.add_method(function)", "                else:\n                    pass", "C03.REGISTER"),
    V("C03", "class not stored", VIS, "                self.api.add_class(class_)\n                parent.add_class(class_)", "                parent.add_class(class_)", "C03.REGISTER"),
    V("C03", "tuple targets skipped in __init__", VIS, "if isinstance(grand_parent, Class) and not isinstance(lvalue, mp_nodes.NameExpr):", "if isinstance(grand_parent, Class) and isinstance(lvalue, mp_nodes.MemberExpr):", "C0"),
    V("C03", "inner classes not emitted", GEN, "        for inner_class in class_.classes:\n            if inner_class.is_public:", "        for inner_class in []:\n            if inner_class.is_public:", "C03.COVERAGE"),
    V("C03", "functions emitted twice", GEN, "                if function_string:\n                    module_text += f\"\\n{function_string}\\n\"", "                if function_string:\n                    module_text += f\"\\n{function_string}\\n\"\n                    module_text += f\"\\n{function_string}\\n\"", "C03."),
    V("C03", "moved but still emitted", GEN, "        if not in_reexport_module and self._has_node_shorter_reexport(node=class_):\n            return \"\"", "        if not in_reexport_module and self._has_node_shorter_reexport(node=class_):\n            pass", "C03.MOVE"),
    V("C03", "appended but reported not moved", GEN, "            self.reexport_modules[shortest_reexport_module_id].append(node)\n            return True", "            self.reexport_modules[shortest_reexport_module_id].append(node)\n            return alias is not None", "C03.MOVE"),
    V("C03", "unparse round trip", VIS, "<<unparse>>", "", None),
    # ------------------------------------------------------------------ C04
    V("C04", "functions not guarded", GEN, "        for function in module.global_functions:\n            if function.is_public:", "        for function in module.global_functions:\n            if function:", "C04.EMIT-GUARD"),
    V("C04", "attribute guard replaced", GEN, "            if not attribute.is_public:\n                continue", "            if not attribute:\n                continue", "C04.EMIT-GUARD"),
    V("C04", "inner class guard dropped", GEN, "        for inner_class in class_.classes:\n            if inner_class.is_public:", "        for inner_class in class_.classes:\n            if inner_class.name:", "C04.EMIT-GUARD"),
    V("C04", "dunder exception widened", VIS, "        if is_internal(name) and not (name.startswith(\"__\") and name.endswith(\"__\")):\n            return False", "        if is_internal(name) and not (name.startswith(\"_\") and name.endswith(\"_\")):\n            return False", "C04.PUBLICITY-TABLE"),
    V("C04", "parent publicity ignored", VIS, "            return parent.is_public\n", "            return True\n", "C04.PUBLICITY-TABLE"),
    V("C04", "path segments not checked", VIS, "        return all(not is_internal(it) for it in qname.split(\".\")[:-1])", "        return True", "C04.PUBLICITY-TABLE"),
    V("C04", "class publicity of other name", VIS, "            is_public=self._is_public(node.name, node.fullname),\n            docstring=docstring,", "            is_public=self._is_public(id_, node.fullname),\n            docstring=docstring,", "C04.JSON-FLAG"),
    V("C04", "by-name guard flattened", VIS, "                            if qname in {\n                                qualified_import.qualified_name,\n                                f\"{reexport_source.id.replace('/', '.')}.{qualified_import.qualified_name}\",\n                            } and (\n                                qualified_import.alias is not None\n                                and not is_internal(qualified_import.alias)\n                                or (qualified_import.alias is None and not_internal)\n                            ):",
      "                            if (\n                                qname in {qualified_import.qualified_name, f\"{reexport_source.id.replace('/', '.')}.{qualified_import.qualified_name}\"}\n                                and qualified_import.alias is not None\n                                and not is_internal(qualified_import.alias)\n                                or (qualified_import.alias is None and not_internal)\n                            ):", "C04.REEXPORT-GUARDS"),
    V("C04", "internal alias accepted", VIS, "                                    or (qualified_import.alias is not None and not is_internal(qualified_import.alias))\n", "                                    or qualified_import.alias is not None\n", "C04.REEXPORT-GUARDS"),
    V("C04", "unparse round trip", VIS, "<<unparse>>", "", None),
    # ------------------------------------------------------------------ C11
    V("C11", "NamedType without import", GEN, "                case _:\n                    self._add_to_imports(type_data[\"qname\"])\n", "                case _:\n", "C11.REF-IMPORT"),
    V("C11", "generic class without import", GEN, "                self._add_to_imports(type_data[\"qname\"])\n                name = _replace_if_safeds_keyword(type_data[\"name\"])", "                name = _replace_if_safeds_keyword(type_data[\"name\"])", "C11.REF-IMPORT"),
    V("C11", "superclass without import", GEN, "                    self._add_to_imports(superclass)\n                    superclass_names.append", "                    superclass_names.append", "C11.REF-IMPORT"),
    V("C11", "substring module test", GEN, 'if self.currently_creating_reexport_data or not import_qname.startswith(f"{module_id}."):', "if self.currently_creating_reexport_data or module_id not in import_qname:", "C11.SAME-MODULE"),
    V("C11", "prefix without separator", GEN, 'if self.currently_creating_reexport_data or not import_qname.startswith(f"{module_id}."):', "if self.currently_creating_reexport_data or not import_qname.startswith(module_id):", "C11.SAME-MODULE"),
    V("C11", "import without placeholder", GEN, "                self.classes_outside_package.add(qname)\n", "                pass\n", "C11.FOREIGN-PAIR"),
    V("C11", "import path converted per segment", GEN, "            from_ = \".\".join(import_parts[0:-1])\n            from_ = _convert_name_to_convention(from_, self.naming_convention)", "            from_ = \".\".join(_convert_name_to_convention(part, self.naming_convention) for part in import_parts[0:-1])", "C11.IMPORT-PATH"),
    V("C11", "imports not sorted", GEN, "        import_strings.sort()\n", "", "C11.IMPORT-RENDER"),
    V("C11", "only first placeholder created", GS, "    for class_ in classes_outside_package:\n        created_module_paths = _create_outside_package_class(class_, out_path, naming_convention, created_module_paths)", "    for class_ in classes_outside_package[:1]:\n        created_module_paths = _create_outside_package_class(class_, out_path, naming_convention, created_module_paths)", "C11.FOREIGN-PAIR"),
    V("C11", "unparse round trip", GEN, "<<unparse>>", "", None),
    # ------------------------------------------------------------------ C10
    V("C10", "stub written under cwd", GS, "        file_path = Path(corrected_module_dir / f\"{public_module_name}.sdsstub\")\n        Path(file_path).touch()", "        file_path = Path(Path.cwd() / f\"{public_module_name}.sdsstub\")\n        Path(file_path).touch()", "C10.WRITE-SINKS"),
    V("C10", "module stubs appended", GS, "        with file_path.open(\"w\", encoding=\"utf-8\", errors=\"backslashreplace\") as f:\n            f.write(module_text)\n\n        # The stub of a module", "        with file_path.open(\"a\", encoding=\"utf-8\", errors=\"backslashreplace\") as f:\n            f.write(module_text)\n\n        # The stub of a module", "C10.WRITE-MODE"),
    V("C10", "placeholder appended whenever file exists", GS, "    if Path.exists(file_path) and not first_creation:", "    if Path.exists(file_path):", "C10.WRITE-MODE"),
    V("C10", "created paths not threaded", GS, "        created_module_paths = _create_outside_package_class(class_, out_path, naming_convention, created_module_paths)", "        _create_outside_package_class(class_, out_path, naming_convention, set())", "C10.WRITE-MODE"),
    V("C10", "api file named after package", "api_analyzer/cli/_cli.py", 'out_file_api = out_dir_path.joinpath(f"{src_dir_path.name}__api.json")', 'out_file_api = out_dir_path.joinpath(f"{api.package}__api.json")', "C10.API-NAME"),
    V("C10", "paths not resolved", "api_analyzer/cli/_cli.py", "out_dir_path=args.out.resolve(),", "out_dir_path=args.out,", "C10.API-NAME"),
    V("C10", "leading underscores kept", GS, '        public_module_name = module_name.lstrip("_")', "        public_module_name = module_name", "C10.SAME-ORIGIN"),
    V("C10", "package module drops two segments", GS, 'corrected_module_dir = module_dir.parent', 'corrected_module_dir = module_dir.parent.parent', "C10."),
    V("C10", "new writer in generator", GEN, "        module_data = []\n        for module_id in self.reexport_modules:", "        module_data = []\n        Path(out_path / \"index.txt\").touch()\n        for module_id in self.reexport_modules:", "C10.WRITE-SINKS"),
    V("C10", "unparse round trip", GS, "<<unparse>>", "", None),
    V("C10", "benign: parent wrapped in Path()", GS, 'corrected_module_dir = module_dir.parent', "corrected_module_dir = Path(module_dir.parent)", None),
    # ------------------------------------------------------------------ C16
    V("C16", "methods sorted in place", GEN, "        for method in methods:\n            # Add methods of internal classes", "        methods.sort(key=lambda m: m.name)\n        for method in methods:\n            # Add methods of internal classes", "C16.NO-MODEL-WRITE"),
    V("C16", "union returns own list", TY, "        type_list = []\n        for t in self.types:\n            type_list.append(t.to_dict())\n\n        return {\"kind\": self.__class__.__name__, \"types\": type_list}", "        return {\"kind\": self.__class__.__name__, \"types\": self.types}", "C16.TODICT-FRESH"),
    V("C16", "literal list aliased", TY, '"literals": list(self.literals)}', '"literals": self.literals}', "C16.TODICT-FRESH"),
    V("C16", "module imports not reset", GEN, "        self.module_imports = set()\n\n        self._current_todo_msgs: set[str] = set()", "        self._current_todo_msgs: set[str] = set()", "C16.STATE-RESET"),
    V("C16", "class generics not reset per module", GEN, "        self.reexport_module_id = \"\"\n        self.class_generics = []\n", "        self.reexport_module_id = \"\"\n", "C16.STATE-RESET"),
    V("C16", "imports not reset per re-exported element", GEN, "                # Reset the objects that we normally would reset in the __call__\n                self.module_imports = set()\n", "                # Reset the objects that we normally would reset in the __call__\n", "C16.STATE-RESET"),
    V("C16", "parameter renamed on the model", GEN, "            name = parameter.name\n            camel_case_name = _convert_name_to_convention(name, self.naming_convention)\n            name_annotation = \"\"", "            name = parameter.name\n            camel_case_name = _convert_name_to_convention(name, self.naming_convention)\n            parameter.docstring.description = \"\"\n            name_annotation = \"\"", "C16.NO-MODEL-WRITE"),
    V("C16", "new list accumulator", GEN, "        self.classes_outside_package: set[str] = set()\n", "        self.classes_outside_package: set[str] = set()\n        self.seen_functions: list[str] = []\n", None),
    V("C16", "unparse round trip", GEN, "<<unparse>>", "", None),
    # ------------------------------------------------------------------ C12
    V("C12", "enum_instances missing from to_dict", API, '            "enum_instances": [\n                enum_instance.to_dict() for enum_instance in sorted(self.enum_instances.values(), key=lambda it: it.id)\n            ],\n', "", "C12."),
    V("C12", "functions not sorted", API, '"functions": [function.to_dict() for function in sorted(self.functions.values(), key=lambda it: it.id)],', '"functions": [function.to_dict() for function in self.functions.values()],', "C12.STORES"),
    V("C12", "classes sorted by name", API, '"classes": [class_.to_dict() for class_ in sorted(self.classes.values(), key=lambda it: it.id)],', '"classes": [class_.to_dict() for class_ in sorted(self.classes.values(), key=lambda it: it.name)],', "C12.STORES"),
    V("C12", "class stored by name", API, "        self.classes[class_.id] = class_", "        self.classes[class_.name] = class_", "C12.STORES"),
    V("C12", "parameter id without function id", VIS, '                    id=f"{function_id}/{arg_name}",', '                    id=f"{arg_name}",', "C12.ID-FORM"),
    V("C12", "enum instance id of other name", VIS, '                            id=f"{parent.id}/{name}",\n                            name=name,', '                            id=f"{parent.id}/{parent.name}",\n                            name=name,', "C12.ID-FORM"),
    V("C12", "methods listed by name", API, '"methods": [method.id for method in self.methods],', '"methods": [method.name for method in self.methods],', "C12.CHILD-REFS"),
    V("C12", "class method flag from static", VIS, "            is_class_method=node.is_class,", "            is_class_method=node.is_static,", "C12.FLAGS"),
    V("C12", "results not added", VIS, "            self.api.add_results(function.results)\n", "", "C12.PAIRING"),
    V("C12", "equal depth roots dropped", GA, "            if path_len == shortest_len:\n                shortest_init_paths.append(init.parent)\n            else:", "            if path_len == shortest_len:\n                pass\n            else:", "C12.ROOT"),
    V("C12", "attribute dedup by global set", VIS, "        return any(value_name == attribute.name for attribute in parent.attributes)", "        return any(value_name == attribute.name for attribute in self.api.attributes_.values())", "C12.ATTR-DEDUP-SCOPE"),
    V("C12", "unparse round trip", API, "<<unparse>>", "", None),
    # ------------------------------------------------------------------ C13
    V("C13", "cache compares last segment", DP, "        if self.__cached_node != qname or qname.endswith(\"__init__\"):", "        if (self.__cached_node or \"\").split(\".\")[-1] != qname.split(\".\")[-1] or qname.endswith(\"__init__\"):", "C13.CACHE"),
    V("C13", "cache key updated without value", DP, "                griffe_docstring = griffe_node.docstring\n                self.__cached_docstring = griffe_docstring\n", "                griffe_docstring = griffe_node.docstring\n                return griffe_docstring\n", "C13.CACHE"),
    V("C13", "cache read outside accessor", DP, "        griffe_docstring = self.__get_cached_docstring(function_qname)\n\n        if griffe_docstring is None:\n            return []", "        griffe_docstring = self.__cached_docstring\n\n        if griffe_docstring is None:\n            return []", "C13.CACHE"),
    V("C13", "segment skip for any position", DP, "            if i == 0 and griffe_node.name == part:", "            if griffe_node.name == part:", "C13.NODE-LOOKUP"),
    V("C13", "attribute rendered with class docstring", GEN, "            docstring = self._create_sds_docstring(attribute.docstring, inner_indentations)", "            docstring = self._create_sds_docstring(attributes[0].docstring, inner_indentations)", "C13.SAME-SUBJECT"),
    V("C13", "function comment without node", GEN, "        docstring = self._create_sds_docstring(function.docstring, indentations, function)", "        docstring = self._create_sds_docstring(function.docstring, indentations)", "C13.SAME-SUBJECT"),
    V("C13", "class documentation of base", VIS, "        docstring = self.docstring_parser.get_class_documentation(node)\n\n        # Variance", "        docstring = self.docstring_parser.get_class_documentation(node.info.defn)\n\n        # Variance", "C13.SAME-SUBJECT"),
    V("C13", "module docstring last string", VIS, "        for definition in get_mypyfile_definitions(node)[:1]:\n", "        for definition in get_mypyfile_definitions(node):\n", "C13.MODULE-DOC"),
    V("C13", "ellipsis replaced in prompt lines", GEN, "example_part.replace('>>>', '//', 1)}", "example_part.replace('>>>', '//', 1).replace('...', '//')}", "C13.EXAMPLE-LINES"),
    V("C13", "param description of first parameter", GEN, "                    param_desc = parameter.docstring.description\n", "                    param_desc = parameters[0].docstring.description\n", "C13.COMMENT-PARTS"),
    V("C13", "unparse round trip", DP, "<<unparse>>", "", None),
    # ------------------------------------------------------------------ C18
    V("C18", "aliases consulted first", VIS, "        # First we check if it can be found in the imports\n        name, qname = self._search_alias_in_qualified_imports(module.qualified_imports, type_name)\n        if name and qname:\n            return name, qname\n\n        if type_name in self.aliases:",
      "        name, qname = \"\", \"\"\n        if type_name in self.aliases:", "C18.LOCAL-FIRST"),
    V("C18", "alias set mutated", VIS, "                qname = deepcopy(qnames).pop()", "                qname = qnames.pop()", "C18.SHARED-WRITE"),
    V("C18", "reexport map written during lookup", VIS, "            reexport_name_forward = \".\".join(path[: i + 1])\n            if reexport_name_forward in self.api.reexport_map:", "            reexport_name_forward = \".\".join(path[: i + 1])\n            if self.api.reexport_map[reexport_name_forward]:", "C18.SHARED-WRITE"),
    V("C18", "type vars reset on leave", VIS, ["        # Reset the type_var_types list\n        self.type_var_types = set()\n", "            # Ignore nested functions for now\n            if isinstance(parent, Module):\n                parent.add_function(function)"],
      ["", "            self.type_var_types = set()\n            # Ignore nested functions for now\n            if isinstance(parent, Module):\n                parent.add_function(function)"], "C18.STATE-RESET"),
    V("C18", "import matched by alias only", VIS, "            if alias_name in {qualified_import.alias, qualified_import.qualified_name.split(\".\")[-1]}:", "            if alias_name == (qualified_import.alias or qualified_import.qualified_name.split(\".\")[-1]):", "C18.IMPORT-MATCH"),
    V("C18", "visitor-wide class registry", VIS, ["        self.type_var_types: set[sds_types.TypeVarType] = set()\n", "        self.__declaration_stack.append(class_)\n"],
      ["        self.type_var_types: set[sds_types.TypeVarType] = set()\n        self.seen_class_names: set[str] = set()\n", "        self.seen_class_names.add(node.name)\n        self.__declaration_stack.append(class_)\n"], "C18.STATE-RESET"),
    V("C18", "unparse round trip", VIS, "<<unparse>>", "", None),
    # ------------------------------------------------------------------ C08
    V("C08", "imports not sorted", GEN, "        import_strings.sort()\n", "", "C08.UNORDERED-ITER"),
    V("C08", "todo messages not sorted", GEN, "        todo_msgs.sort()\n", "", "C08.UNORDERED-ITER"),
    V("C08", "reexported_by not sorted", VIS, "        reexported_by = self._get_reexported_by(node.fullname)\n        # Sort for snapshot tests\n        reexported_by.sort(key=lambda x: x.id)\n\n        # Get constructor docstring", "        reexported_by = self._get_reexported_by(node.fullname)\n\n        # Get constructor docstring", "C08.UNORDERED-ITER"),
    V("C08", "foreign classes not sorted", GS, "    classes_outside_package.sort()\n", "", "C08.UNORDERED-ITER"),
    V("C08", "shortest re-export over the set", HELP, "    for module_id_tuple in sorted(module_ids, key=lambda it: (it[0], it[1] or \"\")):", "    for module_id_tuple in module_ids:", "C08.UNORDERED-ITER"),
    V("C08", "alias search over the set", VIS, "                for alias_qname in sorted(qnames):", "                for alias_qname in qnames:", "C08.UNORDERED-ITER"),
    V("C08", "type vars sorted by constant", VIS, "                type_var_types.sort(key=lambda x: x.name)", "                type_var_types.sort(key=lambda x: len(x.name))", "C08.SORT-KEYS"),
    V("C08", "functions not sorted in JSON", API, '"functions": [function.to_dict() for function in sorted(self.functions.values(), key=lambda it: it.id)],', '"functions": [function.to_dict() for function in self.functions.values()],', "C08.SORTED-SERIALISE"),
    V("C08", "timestamp in header", GEN, "        module_header = f\"{module_name_info}package {_replace_if_safeds_keyword_in_path(package_info_camel_case)}\\n\"\n\n        # Create docstring", "        import time\n        module_header = f\"// generated {time.time()}\\n{module_name_info}package {_replace_if_safeds_keyword_in_path(package_info_camel_case)}\\n\"\n\n        # Create docstring", "C08.AMBIENT"),
    V("C08", "cwd relative output", "api_analyzer/cli/_cli.py", "        out_dir_path=args.out.resolve(),", "        out_dir_path=args.out,", "C08.PATH-SPELLING"),
    V("C08", "new directory listing", GA, "    logging.info(\"Started gathering the raw package data with Mypy.\")", "    extra_files = [str(p) for p in root.iterdir()]\n    logging.info(\"Started gathering the raw package data with Mypy.\")", "C08.FS-ENUM"),
    V("C08", "unparse round trip", VIS, "<<unparse>>", "", None),
]
VARIANTS += [
    # ------------------------------------------------------------------ C01
    V("C01", "expression helper raises again", MH, "    # The type of any other expression (e.g. \"a + b\" or \"x.y\") cannot be named without evaluating it\n    return sds_types.UnknownType()\n",
      "    raise TypeError(\"Unexpected expression type.\")\n", "C01.DISPATCH"),
    V("C01", "alias table raises on other types", GA, "                    # Everything else, e.g. a function of another module (module.function), is not an alias of a type\n                    continue\n",
      "                    raise TypeError(\"Received unexpected type while searching for aliases.\")\n", "C01.DISPATCH"),
    V("C01", "benign: call defaults fall through without warning", VIS, "            elif isinstance(initializer, mp_nodes.CallExpr):\n                msg = (", "            elif isinstance(initializer, mp_nodes.DictExpr):\n                msg = (", None),
    V("C01", "literal helper gets any expression", VIS, "            elif isinstance(\n                initializer,\n                mp_nodes.IntExpr | mp_nodes.FloatExpr | mp_nodes.StrExpr | mp_nodes.NameExpr,\n            ):",
      "            elif not isinstance(initializer, mp_nodes.MemberExpr):", "C01.DISPATCH"),
    V("C01", "index targets asserted again", VIS, "        if isinstance(lvalue, mp_nodes.StarExpr):\n            lvalue = lvalue.expr\n",
      "        if isinstance(lvalue, mp_nodes.StarExpr):\n            lvalue = lvalue.expr\n        assert not isinstance(lvalue, mp_nodes.IndexExpr)\n", "C01.DISPATCH"),
    V("C01", "generic index assumed to be type variables", VIS, "            generic_types = [node_ for node_ in generic_nodes if isinstance(node_, mp_nodes.TypeVarExpr)]", "            generic_types = [node_ for node_ in generic_nodes if node_ is not None]", "C01.DISPATCH"),
    V("C01", "walker descends into enum bodies", WALK, "                {\"AssignmentStmt\"}\n                if self.__is_enum(node)\n                else", "                {\"AssignmentStmt\", \"FuncDef\"}\n                if self.__is_enum(node)\n                else", "C01.STACK"),
    V("C01", "walker descends into function bodies", WALK, "        elif isinstance(node, FuncDef) and node.name == \"__init__\":\n            definitions = get_funcdef_definitions(node)\n            child_nodes = [_def for _def in definitions if _def.__class__.__name__ == \"AssignmentStmt\"]",
      "        elif isinstance(node, FuncDef):\n            definitions = get_funcdef_definitions(node)\n            child_nodes = [_def for _def in definitions if _def.__class__.__name__ in {\"AssignmentStmt\", \"FuncDef\"}]", "C01.STACK"),
    V("C01", "enter_funcdef forgets to push on one path", VIS, "    def leave_funcdef(self, _: mp_nodes.FuncDef) -> None:\n        function = self.__declaration_stack.pop()",
      "    def leave_funcdef(self, _: mp_nodes.FuncDef) -> None:\n        self.__declaration_stack.pop()\n        function = self.__declaration_stack.pop()", "C01.STACK"),
    V("C01", "type kind without renderer", GEN, "        elif kind == \"TypeVarType\":\n            name = _convert_name_to_convention(type_data[\"name\"], self.naming_convention)\n            return _replace_if_safeds_keyword(name)\n", "", "C01.TABLE"),
    V("C01", "variance table misses a member", GEN, "                    VarianceKind.CONTRAVARIANT.name: \"in \",\n", "", "C01.TABLE"),
    V("C01", "new raise in the default-value walk", VIS, "                logging.warning(msg)\n                # Safe-DS does not support call expressions as types\n                return default_value, default_is_none",
      "                raise NotImplementedError(msg)", "C01.RAISE-INVENTORY"),
    V("C01", "second raise of a triaged kind", GA, "    if not walkable_files:\n        raise ValueError(\"No files found to analyse.\")\n", "    if not walkable_files:\n        raise ValueError(\"No files found to analyse.\")\n    if len(walkable_files) > 1000:\n        raise ValueError(\"Too many files.\")\n", "C01.RAISE-INVENTORY"),
    V("C01", "dotless names registered as outside classes", GEN, "                if \".\" not in qname:\n                    # A name without a module path, e.g. an unresolved type name of a docstring, cannot be imported\n                    return\n\n", "", "C01.PARTIAL-OPS"),
    V("C01", "no early exit before last parameter doc", DP, "        if len(matching_parameters) == 0:\n            return ParameterDocstring()\n", "", "C01.PARTIAL-OPS"),
    V("C01", "length test weakened", GS, "(len(splitted_text) == 3 and splitted_text[1].startswith(\"package \"))", "(len(splitted_text) != 3 and splitted_text[3].startswith(\"package \"))", "C01.PARTIAL-OPS"),
    V("C01", "pop before the guarded index", VIS, "                if len(unanalyzed_args) == 1:\n                    # Mypy has removed the \"Final\", the analyzed type is the type of the argument\n                    return sds_types.FinalType(type_=self.mypy_type_to_abstract_type(mypy_type, unanalyzed_args[0]))", "                if len(unanalyzed_args) == 1:\n                    unanalyzed_args.pop()\n                    return sds_types.FinalType(type_=self.mypy_type_to_abstract_type(mypy_type, unanalyzed_args[0]))", "C01.PARTIAL-OPS"),
    V("C01", "loop variable no longer advanced", DP, "                    left_bin = left_bin.left\n", "                    pass\n", "C01.TERM"),
    V("C01", "recursion on the same node", MH, "        return mypy_expression_to_sds_type(expr.expr)\n", "        return mypy_expression_to_sds_type(expr)\n", "C01.TERM"),
    V("C01", "attribute the library does not have", GA, "fullname = key.node.target.type.fullname", "fullname = key.node.target.type.full_name", "C01.LIBAPI"),
    V("C01", "benign: walker parameter renamed", WALK, ["def __is_enum(node: ClassDef) -> bool:", "for superclass in node.base_type_exprs\n        )"], ["def __is_enum(class_node: ClassDef) -> bool:", "for superclass in class_node.base_type_exprs\n        )"], None),
    V("C01", "benign: emptiness test by truthiness", DP, "        if len(matching_parameters) == 0:\n            return ParameterDocstring()\n", "        if not matching_parameters:\n            return ParameterDocstring()\n", None),
    V("C01", "benign: helper branches reordered", MH, "    elif isinstance(expr, mp_nodes.IntExpr):\n        return sds_types.NamedType(name=\"int\", qname=\"builtins.int\")\n    elif isinstance(expr, mp_nodes.FloatExpr):\n        return sds_types.NamedType(name=\"float\", qname=\"builtins.float\")\n",
      "    elif isinstance(expr, mp_nodes.FloatExpr):\n        return sds_types.NamedType(name=\"float\", qname=\"builtins.float\")\n    elif isinstance(expr, mp_nodes.IntExpr):\n        return sds_types.NamedType(name=\"int\", qname=\"builtins.int\")\n", None),
    V("C01", "benign: guard written with a local", GS, "        if len(splitted_text) <= 2 or (len(splitted_text) == 3 and splitted_text[1].startswith(\"package \")):", "        n_lines = len(splitted_text)\n        if n_lines <= 2 or (n_lines == 3 and splitted_text[1].startswith(\"package \")):", None),
    V("C01", "benign: dot test with find", GEN, "                if \".\" not in qname:\n                    # A name without", "                if qname.find(\".\") == -1:\n                    # A name without", None),
]
VARIANTS += [
    V("C04", "wildcard test collapsed to one comparison", VIS,
      "                                (\n                                    (is_from_same_package and wildcard_import.module_name == module_name)\n                                    or (\n                                        is_from_another_package\n                                        and module_qname\n                                        in {\n                                            wildcard_import.module_name,\n                                            f\"{reexport_source.id.replace('/', '.')}.{wildcard_import.module_name}\",\n                                        }\n                                    )\n                                )\n",
      "                                wildcard_import.module_name == (module_name if is_from_same_package else module_qname)\n", "C04.REEXPORT-TABLE"),
    V("C04", "by-name alias test inverted", VIS, "                                qualified_import.alias is not None\n                                and not is_internal(qualified_import.alias)\n                                or (qualified_import.alias is None and not_internal)",
      "                                qualified_import.alias is not None\n                                and is_internal(qualified_import.alias)\n                                or (qualified_import.alias is None and not_internal)", "C04.REEXPORT-"),
    V("C04", "whole-module import ignores private parent", VIS, "                                and not_internal\n                                and (isinstance(parent, Module) or parent.is_public)\n                            ):\n                                # If the module name or alias is not internal, check if the parent is public",
      "                                and not_internal\n                            ):\n                                # If the module name or alias is not internal, check if the parent is public", "C04.REEXPORT-TABLE"),
    V("C04", "benign: wildcard disjuncts swapped", VIS,
      "                                    (is_from_same_package and wildcard_import.module_name == module_name)\n                                    or (\n                                        is_from_another_package\n                                        and module_qname\n                                        in {\n                                            wildcard_import.module_name,\n                                            f\"{reexport_source.id.replace('/', '.')}.{wildcard_import.module_name}\",\n                                        }\n                                    )\n",
      "                                    (\n                                        is_from_another_package\n                                        and module_qname\n                                        in {\n                                            wildcard_import.module_name,\n                                            f\"{reexport_source.id.replace('/', '.')}.{wildcard_import.module_name}\",\n                                        }\n                                    )\n                                    or (is_from_same_package and wildcard_import.module_name == module_name)\n", None),
]
VARIANTS += [
    V("C20", "marker raised inside the superclass loop", GEN,
      ["                    superclass_names.append(_replace_if_safeds_keyword(superclass_name))\n", "        if len(superclass_names) > 1:\n            self._current_todo_msgs.add(\"multiple_inheritance\")\n\n"],
      ["                    superclass_names.append(_replace_if_safeds_keyword(superclass_name))\n                    if len(superclass_names) > 1:\n                        self._current_todo_msgs.add(\"multiple_inheritance\")\n", ""], "C20.FLUSH"),
]
VARIANTS += [
    V("C01", "output directory must not exist", GS, "        corrected_module_dir.mkdir(parents=True, exist_ok=True)", "        corrected_module_dir.mkdir(parents=True)", "C01.FS-TOLERANT"),
    V("C01", "stub written with the locale's encoding", GS, "        with file_path.open(\"w\", encoding=\"utf-8\", errors=\"backslashreplace\") as f:\n            f.write(module_text)", "        with file_path.open(\"w\", errors=\"backslashreplace\") as f:\n            f.write(module_text)", "C01.FS-TOLERANT"),
    V("C01", "strict JSON", API, "json.dump(self.to_dict(), f, indent=2)", "json.dump(self.to_dict(), f, indent=2, allow_nan=False)", "C01.FS-TOLERANT"),
    V("C01", "benign: sorted JSON keys", API, "json.dump(self.to_dict(), f, indent=2)", "json.dump(self.to_dict(), f, indent=2, sort_keys=False)", None),
]
VARIANTS += [
    V("C09", "one-letter names skip the conversion", HELP, "    if not name.strip(\"_\") or naming_convention == NamingConvention.PYTHON:", "    if len(name) < 2 or not name.strip(\"_\") or naming_convention == NamingConvention.PYTHON:", "C09.CONVERT-SHAPE"),
    V("C09", "class mode keeps the first part", HELP, "        converted_name = \"\".join(part[0].upper() + part[1:] for part in name_parts if part)", "        converted_name = name_parts[0] + \"\".join(part[0].upper() + part[1:] for part in name_parts[1:] if part)", "C09.CONVERT-SHAPE"),
    V("C09", "benign: capitalise helper expression", HELP, "        converted_name = \"\".join(part[0].upper() + part[1:] for part in name_parts if part)", "        converted_name = \"\".join([part[0].upper() + part[1:] for part in name_parts if part])", None),
]
VARIANTS += [
    V("C07", "returned variable taken for a class again", MH, "        elif isinstance(expr.node, mp_nodes.Var):\n            # The name of a variable or parameter is not the name of its type\n            return sds_types.UnknownType()\n", "", "C07.INFER-TABLE"),
]
VARIANTS += [
    V("C01", "new silenced attribute diagnostic", GA, "fullname = key.node.target.type.fullname", "fullname = key.node.target.type.full_name  # type: ignore[attr-defined]", "C01.LIBAPI"),
]
VARIANTS += [
    V("C01", "empty superclass names recorded again", VIS, "                if not superclass_qname:\n                    continue\n", "", "C01.DISPATCH"),
    V("C13", "description overwritten per text section again", DP, "description = f\"{description}\\n\\n{docstring_section.value}\".strip(\"\\n\")", "description = docstring_section.value.strip(\"\\n\")", "C13.ACCUMULATE"),
    V("C13", "examples replaced per section", DP, "                    for example_data in docstring_section.value:\n                        examples.append(example_data[1].strip(\"\\n\"))\n\n        return FunctionDocstring(",
      "                    examples = [example_data[1].strip(\"\\n\") for example_data in docstring_section.value]\n\n        return FunctionDocstring(", "C13.ACCUMULATE"),
    V("C13", "benign: examples extended by a comprehension", DP, "                    for example_data in docstring_section.value:\n                        examples.append(example_data[1].strip(\"\\n\"))\n\n        return FunctionDocstring(",
      "                    examples.extend(example_data[1].strip(\"\\n\") for example_data in docstring_section.value)\n\n        return FunctionDocstring(", None),
]
VARIANTS += [
    V("C05", "literal values de-duplicated by ==", GEN, "all_literals = [literal_type for literal in literal_data for literal_type in literal[\"literals\"]]",
      "all_literals = list(dict.fromkeys(literal_type for literal in literal_data for literal_type in literal[\"literals\"]))", "C05.UNION-NORMAL"),
    V("C05", "class attribute writes unanalysed arguments into the mypy type", VIS, "            attribute_type = node.type\n\n        # Ignore types that are special mypy any types.",
      "            attribute_type = node.type\n            if unanalyzed_type is not None and hasattr(attribute_type, \"args\") and hasattr(unanalyzed_type, \"args\"):\n                attribute_type.args = unanalyzed_type.args\n\n        # Ignore types that are special mypy any types.", "C05.INPUT-UNMODIFIED"),
]
VARIANTS += [
    V("C13", "every prompt occurrence replaced again", GEN, "example_part.replace('...', '//', 1)", "example_part.replace('...', '//')", "C13.EXAMPLE-LINES"),
    V("C13", "benign: marker cut off by slicing is not used, count as keyword-free literal", GEN, "example_part.replace('>>>', '//', 1)", "example_part.replace(\">>>\", \"//\", 1)", None),
]
VARIANTS += [
    V("C11", "enums of the package taken for foreign classes again", GEN, "for class_id in [*self.api.classes, *self.api.enums]:", "for class_id in self.api.classes:", "C11.FOREIGN-PAIR"),
]
VARIANTS += [
    V("C04", "instance attributes judged by the module path again", VIS, "            grand_parent = self.__declaration_stack[-2]\n            if isinstance(grand_parent, Class):\n                parent = grand_parent\n", "            pass\n", "C04.PUBLICITY-TABLE"),
]
VARIANTS += [
    V("C13", "result names drawn only for described results again", GEN,
      ["                # Every result takes its name, also those without description, so that the names match the signature\n                result_name = result_docstring.name if result_docstring.name else next(name_generator)\n\n", "                    result_name = _convert_name_to_convention(result_name, self.naming_convention)\n\n                    full_result_docstring"],
      ["", "                    result_name = result_docstring.name if result_docstring.name else next(name_generator)\n                    result_name = _convert_name_to_convention(result_name, self.naming_convention)\n\n                    full_result_docstring"], "C13.RESULT-DOC-NAME"),
]
VARIANTS += [
    V("C13", "only the Parameters section searched again", DP, "else {DocstringSectionKind.parameters, DocstringSectionKind.other_parameters}", "else {DocstringSectionKind.parameters}", "C13.SECTION-KINDS"),
]
VARIANTS += [
    V("C11", "re-export stubs compare with the package id again", GEN, "        if self.currently_creating_reexport_data or not import_qname.startswith(f\"{module_id}.\"):", "        if not import_qname.startswith(f\"{module_id}.\"):", "C11.SAME-MODULE"),
]
VARIANTS += [
    V("C13", "constructor docstring fallback for numpydoc only again", DP, "        if len(matching_parameters) == 0 and function_name == \"__init__\":", "        if self.parser == Parser.numpy and len(matching_parameters) == 0 and function_name == \"__init__\":", "C13.STYLE-INDEPENDENT"),
    V("C04", "relative re-export keys not resolved against the source package", VIS, "is_from_another_package = bool({reexported_name, reexported_qname} & {qname, module_qname})", "is_from_another_package = reexported_name in {qname, module_qname}", "C04.REEXPORT-GUARDS"),
]
VARIANTS += [
    V("C19", "union members de-duplicated while parsing", TY, "            type_ = AbstractType.from_dict(element)\n            if type_ is not None:\n                types.append(type_)\n        return UnionType(types)",
      "            type_ = AbstractType.from_dict(element)\n            if type_ is not None and type_ not in types:\n                types.append(type_)\n        return UnionType(types)", "C19.NESTED-PARSE"),
    V("C14", "results loop stops after the first warning", VIS, ["            if result_doc is None:\n                break\n", "                msg = f\"Different type hint and docstring types for the result of '{function_id}'.\"\n                logging.warning(msg)\n"],
      ["            if result_doc is None or msg:\n                break\n", "                msg = f\"Different type hint and docstring types for the result of '{function_id}'.\"\n                logging.warning(msg)\n"], "C14.WARN-SLICE"),
    V("C09", "method type variables looked up by their Python name", GEN, "                if not is_method or (is_method and type_var_name not in self.class_generics):", "                if not is_method or (is_method and type_var.name not in self.class_generics):", "C09.LOOKUP-SPELLING"),
]
VARIANTS += [
    V("C05", "literal-or-None shorthand for unions of any size", GEN, "            if len(type_data[\"types\"]) == 2 and literal_data:", "            if literal_data:", "C05.UNION-NORMAL"),
]
VARIANTS += [
    V("C10", "module stub paths not registered", GS, "        if file_path.stem == file_path.parent.name:\n            created_module_paths.add(file_path.parent.relative_to(out_path).as_posix())\n", "", "C10.WRITE-MODE"),
]
VARIANTS += [
    V("C10", "api file named after the stem of the source directory again", "api_analyzer/cli/_cli.py", 'f"{src_dir_path.name}__api.json"', 'f"{src_dir_path.stem}__api.json"', "C10.API-NAME"),
]
VARIANTS += [
    V("C09", "only the single underscore is left unconverted again", HELP, "    if not name.strip(\"_\") or naming_convention == NamingConvention.PYTHON:", "    if name == \"_\" or naming_convention == NamingConvention.PYTHON:", "C09.CONVERT-SHAPE"),
]
VARIANTS += [
    V("C04", "imports inside functions recorded as re-exports again", VIS, "            if not import_.is_top_level:\n                continue\n\n", "", "C04.REEXPORT-SOURCE"),
]
VARIANTS += [
    V("C04", "by-name re-export matched by plain suffix again", VIS, "                            if qname in {\n                                qualified_import.qualified_name,\n                                f\"{reexport_source.id.replace('/', '.')}.{qualified_import.qualified_name}\",\n                            } and (", "                            if qname.endswith(qualified_import.qualified_name) and (", "C04.REEXPORT-GUARDS"),
    V("C04", "every name ending in two underscores exempt again", VIS, "if is_internal(name) and not (name.startswith(\"__\") and name.endswith(\"__\")):", "if is_internal(name) and not name.endswith(\"__\"):", "C04.PUBLICITY-TABLE"),
]
VARIANTS += [
    V("C20", "benign: marker added through a local alias of the pending set", GEN, "            if name == \"Set\":\n                self._current_todo_msgs.add(\"no set support\")", "            if name == \"Set\":\n                pending = self._current_todo_msgs\n                pending.add(\"no set support\")", None),
    V("C04", "benign: dunder test in a nested if", VIS, "        if is_internal(name) and not (name.startswith(\"__\") and name.endswith(\"__\")):\n            return False\n",
      "        if is_internal(name):\n            is_dunder = name.startswith(\"__\") and name.endswith(\"__\")\n            if not is_dunder:\n                return False\n", None),
    V("C15", "benign: excluded directories as a set intersection", GA, "if not is_test_run and (\"test\" in file_path.parts or \"tests\" in file_path.parts or \"docs\" in file_path.parts):", "if not is_test_run and {\"test\", \"tests\", \"docs\"} & set(file_path.parts):", None),
    V("C05", "benign: nullable length test flipped", GEN, "if len(types) == 2 and none_type_name in types and has_named_type:", "if 2 == len(types) and none_type_name in types and has_named_type:", None),
]
VARIANTS += [
    # benign rewrites found by a rewrite probe against all properties (each one made a recogniser alarm before it was widened)
    V("C11", "benign: superclass name via rsplit", GEN, 'superclass_name = superclass.split(".")[-1]', 'superclass_name = superclass.rsplit(".", 1)[-1]', None),
    V("C17", "benign: superclass name via rsplit", GEN, 'superclass_name = superclass.split(".")[-1]', 'superclass_name = superclass.rsplit(".", 1)[-1]', None),
    V("C20", "benign: empty pending test via len", GEN, '        if not self._current_todo_msgs:\n            return ""', '        if len(self._current_todo_msgs) == 0:\n            return ""', None),
    V("C14", "benign: NamedType eq as tuple compare", TY, 'return self.name == other.name and self.qname == other.qname', 'return (self.name, self.qname) == (other.name, other.qname)', None),
    V("C19", "benign: NamedType eq as tuple compare", TY, 'return self.name == other.name and self.qname == other.qname', 'return (self.name, self.qname) == (other.name, other.qname)', None),
    V("C12", "benign: API file written with write_text", API, '        with path.open("w", encoding="utf-8") as f:\n            json.dump(self.to_dict(), f, indent=2)', '        path.write_text(json.dumps(self.to_dict(), indent=2), encoding="utf-8")', None),
    V("C10", "benign: API file written with write_text", API, '        with path.open("w", encoding="utf-8") as f:\n            json.dump(self.to_dict(), f, indent=2)', '        path.write_text(json.dumps(self.to_dict(), indent=2), encoding="utf-8")', None),
    V("C01", "benign: API file written with write_text", API, '        with path.open("w", encoding="utf-8") as f:\n            json.dump(self.to_dict(), f, indent=2)', '        path.write_text(json.dumps(self.to_dict(), indent=2), encoding="utf-8")', None),
    V("C08", "benign: rglob instead of a glob pattern", GA, 'for file_path in sorted(root.glob(pattern="./**/*.py")):', 'for file_path in sorted(root.rglob("*.py")):', None),
    V("C15", "benign: rglob instead of a glob pattern", GA, 'for file_path in sorted(root.glob(pattern="./**/*.py")):', 'for file_path in sorted(root.rglob("*.py")):', None),
    V("C08", "benign: re-exporters sorted with sorted()", VIS, '        reexported_by.sort(key=lambda x: x.id)\n\n        # Get constructor docstring', '        reexported_by = sorted(reexported_by, key=lambda x: x.id)\n\n        # Get constructor docstring', None),
    V("C05", "benign: None / Literal branches swapped", VIS, '        elif isinstance(mypy_type, mp_types.NoneType):\n            return sds_types.NamedType(name="None", qname="builtins.None")\n        elif isinstance(mypy_type, mp_types.LiteralType):\n            return sds_types.LiteralType(literals=[mypy_type.value])',
      '        elif isinstance(mypy_type, mp_types.LiteralType):\n            return sds_types.LiteralType(literals=[mypy_type.value])\n        elif isinstance(mypy_type, mp_types.NoneType):\n            return sds_types.NamedType(name="None", qname="builtins.None")', None),
    V("C02", "benign: module header built from two parts", GEN, '        module_header = f"{module_name_info}package {_replace_if_safeds_keyword_in_path(package_info_camel_case)}\\n"\n\n        # Create docstring', '        package_line = f"package {_replace_if_safeds_keyword_in_path(package_info_camel_case)}\\n"\n        module_header = module_name_info + package_line\n\n        # Create docstring', None),
    V("C03", "benign: leave_funcdef branches reordered", VIS, '            if isinstance(parent, Module):\n                parent.add_function(function)\n            elif isinstance(parent, Class):\n                if function.name == "__init__":\n                    parent.add_constructor(function)\n                else:\n                    parent.add_method(function)',
      '            if isinstance(parent, Class):\n                if function.name == "__init__":\n                    parent.add_constructor(function)\n                else:\n                    parent.add_method(function)\n            elif isinstance(parent, Module):\n                parent.add_function(function)', None),
]
VARIANTS += [
    V("C06", "benign: receiver skipped by its index", GEN, '        first_loop_skipped = False\n        for parameter in parameters:\n            # Skip self parameter for functions\n            if is_instance_method and not first_loop_skipped:\n                first_loop_skipped = True\n                continue\n',
      '        for parameter_index, parameter in enumerate(parameters):\n            # Skip self parameter for functions\n            if is_instance_method and parameter_index == 0:\n                continue\n', None),
    V("C05", "benign: receiver skipped by its index", GEN, '        first_loop_skipped = False\n        for parameter in parameters:\n            # Skip self parameter for functions\n            if is_instance_method and not first_loop_skipped:\n                first_loop_skipped = True\n                continue\n',
      '        for parameter_index, parameter in enumerate(parameters):\n            # Skip self parameter for functions\n            if is_instance_method and parameter_index == 0:\n                continue\n', None),
    V("C09", "benign: receiver skipped by its index", GEN, '        first_loop_skipped = False\n        for parameter in parameters:\n            # Skip self parameter for functions\n            if is_instance_method and not first_loop_skipped:\n                first_loop_skipped = True\n                continue\n',
      '        for parameter_index, parameter in enumerate(parameters):\n            # Skip self parameter for functions\n            if is_instance_method and parameter_index == 0:\n                continue\n', None),
    V("C12", "benign: store written with update()", API, '        self.classes[class_.id] = class_', '        self.classes.update({class_.id: class_})', None),
]
VARIANTS += [
    V("C08", "source files walked in enumeration order", GA, 'for file_path in sorted(root.glob(pattern="./**/*.py")):', 'for file_path in root.glob(pattern="./**/*.py"):', "C08.FS-ENUM"),
    V("C08", "benign: file list sorted in a separate statement", GA, 'for file_path in sorted(root.glob(pattern="./**/*.py")):', 'python_files = sorted(root.glob(pattern="./**/*.py"))\n    for file_path in python_files:', None),
    V("C15", "benign: file list sorted in a separate statement", GA, 'for file_path in sorted(root.glob(pattern="./**/*.py")):', 'python_files = sorted(root.glob(pattern="./**/*.py"))\n    for file_path in python_files:', None),
]
VARIANTS += [
    # repairs of the defects a runtime oracle found on the unmodified tree, each reverted
    V("C01", "parameter without a mypy type raises", VIS, "            if mypy_type is None:\n                # Mypy does not analyse every function (e.g. unreachable code or functions with @no_type_check), for\n                # those we have no type information\n                pass\n",
      "            if mypy_type is None:\n                raise ValueError(\"Argument has no type.\")\n", "C01.RAISE-INVENTORY"),
    V("C01", "dict branch reads two arguments unconditionally", VIS, 'elif is_builtin_class and type_name in {"dict", "Mapping"} and len(mypy_type.args) == 2:', 'elif is_builtin_class and type_name in {"dict", "Mapping"}:', "C01.PARTIAL-OPS"),
    V("C01", "benign: dict arity tested with >=", VIS, 'elif is_builtin_class and type_name in {"dict", "Mapping"} and len(mypy_type.args) == 2:', 'elif is_builtin_class and type_name in {"dict", "Mapping"} and len(mypy_type.args) >= 2:', None),
    V("C01", "unbound name becomes a named type without qname", MH, "        elif not expr.fullname:\n            # Mypy could not find out what the name refers to\n            return sds_types.UnknownType()\n", "", "C01.IMPORT-SOURCE"),
    V("C01", "benign: unbound-name test written positively", MH, "        elif not expr.fullname:\n            # Mypy could not find out what the name refers to\n            return sds_types.UnknownType()\n        else:\n            return sds_types.NamedType(name=expr.name, qname=expr.fullname)",
      "        elif expr.fullname:\n            return sds_types.NamedType(name=expr.name, qname=expr.fullname)\n        else:\n            return sds_types.UnknownType()", None),
    V("C01", "named type from a member expression without guard", MH, "    elif isinstance(expr, mp_nodes.IntExpr):\n        return sds_types.NamedType(name=\"int\", qname=\"builtins.int\")",
      "    elif isinstance(expr, mp_nodes.MemberExpr):\n        return sds_types.NamedType(name=expr.name, qname=expr.fullname)\n    elif isinstance(expr, mp_nodes.IntExpr):\n        return sds_types.NamedType(name=\"int\", qname=\"builtins.int\")", "C01.IMPORT-SOURCE"),
    V("C01", "docstring lookup raises for unknown declarations", DP, "                logging.warning(msg)\n                return None\n\n        return griffe_node", "                raise ValueError(msg)\n\n        return griffe_node", "C01.RAISE-INVENTORY"),
    V("C01", "class lookup treats a missing node as an error", DP, "        if griffe_node is None:\n            return ClassDocstring()\n", "        if griffe_node is None:\n            raise TypeError(f\"Expected a griffe node for {class_node.fullname}, got None.\")\n", "C01.RAISE-INVENTORY"),
    V("C01", "stub file written with the strict error handler", GS, 'with file_path.open("w", encoding="utf-8", errors="backslashreplace") as f:\n            f.write(module_text)', 'with file_path.open("w", encoding="utf-8") as f:\n            f.write(module_text)', "C01.FS-TOLERANT"),
    V("C01", "benign: unencodable characters replaced", GS, 'with file_path.open("w", encoding="utf-8", errors="backslashreplace") as f:\n            f.write(module_text)', 'with file_path.open("w", encoding="utf-8", errors="replace") as f:\n            f.write(module_text)', None),
    V("C01", "API JSON written without ASCII escaping", API, "json.dump(self.to_dict(), f, indent=2)", "json.dump(self.to_dict(), f, indent=2, ensure_ascii=False)", "C01.FS-TOLERANT"),
    V("C08", "docstring package looked up on the module search path", DP, "load(package_path.name, search_paths=[package_path.parent], docstring_parser=parser)", "load(package_path, docstring_parser=parser)", "C08.AMBIENT"),
    V("C08", "benign: search path given as a string", DP, "load(package_path.name, search_paths=[package_path.parent], docstring_parser=parser)", "load(package_path.name, search_paths=[str(package_path.parent)], docstring_parser=parser)", None),
    V("C01", "benign: search path given as a string", DP, "load(package_path.name, search_paths=[package_path.parent], docstring_parser=parser)", "load(package_path.name, search_paths=[str(package_path.parent)], docstring_parser=parser)", None),
]
VARIANTS += [
    V("C17", "abstract classes lose their superclass block", GEN, '        if superclasses:\n            for superclass in superclasses:\n                if superclass == "abc.ABC":', '        if superclasses and not class_.is_abstract:\n            for superclass in superclasses:\n                if superclass == "abc.ABC":', "C17.BRANCH"),
    V("C20", "abstract classes lose their superclass block", GEN, '        if superclasses:\n            for superclass in superclasses:\n                if superclass == "abc.ABC":', '        if superclasses and not class_.is_abstract:\n            for superclass in superclasses:\n                if superclass == "abc.ABC":', "C20.GUARDS"),
    V("C17", "benign: ABC skipped by its name parts", GEN, '                if superclass == "abc.ABC":', '                if superclass.split(".") == ["abc", "ABC"]:', None),
    V("C20", "non-literal defaults marked as unknown values (the repair C20.DEFAULT-SOURCE asks for)", VIS, "                # in the package we analyze with Safe-DS.\n                return default_value, default_is_none", "                # in the package we analyze with Safe-DS.\n                return UnknownValue(), default_is_none", None),
    V("C06", "non-literal defaults marked as unknown values (the repair C20.DEFAULT-SOURCE asks for)", VIS, "                # in the package we analyze with Safe-DS.\n                return default_value, default_is_none", "                # in the package we analyze with Safe-DS.\n                return UnknownValue(), default_is_none", None),
    V("C06", "literal int default reported as unknown", MH, "    elif isinstance(expr, mp_nodes.IntExpr | mp_nodes.FloatExpr | mp_nodes.StrExpr):\n        return expr.value", "    elif isinstance(expr, mp_nodes.FloatExpr | mp_nodes.StrExpr):\n        return expr.value", "C06.LITERAL-VALUE"),
]
VARIANTS += [
    V("C03", "every constructor target becomes an attribute", VIS, "            if not is_static and not (\n                isinstance(lvalue, mp_nodes.MemberExpr)\n                and isinstance(lvalue.expr, mp_nodes.NameExpr)\n                and getattr(lvalue.expr.node, \"is_self\", False)\n            ):\n                return attributes\n", "", "C03.ATTR-TARGETS"),
    V("C03", "instance attributes of the constructor dropped", VIS, "                and getattr(lvalue.expr.node, \"is_self\", False)\n", "                and not getattr(lvalue.expr.node, \"is_self\", False)\n", "C03.ATTR-TARGETS"),
    V("C03", "benign: receiver recognised by its name", VIS, "                and getattr(lvalue.expr.node, \"is_self\", False)\n", "                and lvalue.expr.name == \"self\"\n", None),
    V("C12", "superclass alias lookup skipped for resolved classes (the repair C12.FLAGS asks for)", VIS, "                if superclass_name in self.aliases:\n", "                if superclass_name in self.aliases and not isinstance(superclass.node, mp_nodes.TypeInfo):\n", None),
]
VARIANTS += [
    V("C05", "type aliases not expanded", VIS, "        if isinstance(mypy_type, mp_types.TypeAliasType) and not mypy_type.is_recursive:\n            mypy_type = mp_types.get_proper_type(mypy_type)\n", "", "C05.CTOR-TABLE"),
    V("C01", "recursive type aliases expanded as well", VIS, "        if isinstance(mypy_type, mp_types.TypeAliasType) and not mypy_type.is_recursive:\n", "        if isinstance(mypy_type, mp_types.TypeAliasType):\n", "C01.TERM"),
    V("C05", "Final argument translated from the unanalysed annotation", VIS, "return sds_types.FinalType(type_=self.mypy_type_to_abstract_type(mypy_type, unanalyzed_args[0]))", "return sds_types.FinalType(type_=self.mypy_type_to_abstract_type(unanalyzed_args[0]))", "C05.CTOR-TABLE"),
    V("C05", "benign: Final argument translated from the analysed type alone", VIS, "return sds_types.FinalType(type_=self.mypy_type_to_abstract_type(mypy_type, unanalyzed_args[0]))", "return sds_types.FinalType(type_=self.mypy_type_to_abstract_type(mypy_type))", None),
]
VARIANTS += [
    V("C03", "attributes typed with a type variable skipped", GEN, '                if attribute_type["kind"] == "TypeVarType" and attribute_type["name"] == attribute.name:', '                if attribute_type["kind"] == "TypeVarType":', "C03.COVERAGE"),
    V("C05", "callable exemption only without annotation (the repair C05.POSITIONS asks for)", VIS, "            and not isinstance(attribute_type, mp_types.CallableType)\n", "            and not (isinstance(attribute_type, mp_types.CallableType) and unanalyzed_type is None)\n", None),
    V("C05", "property results joined as a tuple (the repair C05.POSITIONS asks for)", GEN, "        result_union = UnionType(types=result_types)\n        types_data = result_union.to_dict()", "        from safeds_stubgen.api_analyzer import TupleType\n        result_union = TupleType(types=result_types) if len(result_types) > 1 else UnionType(types=result_types)\n        types_data = result_union.to_dict()", None),
]
VARIANTS += [
    V("C09", "converted names may start with a digit", HELP, "    if converted_name[:1].isdigit():\n        return f\"_{converted_name}\"\n\n", "", "C09.CONVERT-SHAPE"),
    V("C09", "benign: digit test through isidentifier", HELP, "    if converted_name[:1].isdigit():\n        return f\"_{converted_name}\"\n", "    if not converted_name.isidentifier():\n        return f\"_{converted_name}\"\n", None),
]
VARIANTS += [
    V("C12", "infinite float defaults written to the API file", VIS, "                if isinstance(inferred_default_value, float) and not math.isfinite(inferred_default_value):\n                    # A float literal which is too large (e.g. 1e999) is infinite and cannot be written as JSON number\n                    return UnknownValue(), default_is_none\n                elif isinstance(inferred_default_value, bool | int | float | NoneType):", "                if isinstance(inferred_default_value, bool | int | float | NoneType):", "C12.STORES"),
    V("C06", "every float default reported as unknown", VIS, "                if isinstance(inferred_default_value, float) and not math.isfinite(inferred_default_value):", "                if isinstance(inferred_default_value, float):", "C06.LITERAL-VALUE"),
    V("C06", "benign: infinity recognised with isinf", VIS, "                if isinstance(inferred_default_value, float) and not math.isfinite(inferred_default_value):", "                if isinstance(inferred_default_value, float) and (math.isinf(inferred_default_value) or math.isnan(inferred_default_value)):", None),
]
VARIANTS += [
    # repairs that can no longer be reversed textually (later repairs touch the same lines), re-introduced in today's form
    V("C01", "a bare Final raises again", VIS, "                if len(types) == 0:\n                    # A bare \"Final\" has the type that was inferred for the assigned value\n                    return sds_types.FinalType(type_=self.mypy_type_to_abstract_type(mypy_type))",
      "                if len(types) == 0:\n                    raise ValueError(\"Final type has no type arguments.\")", "C01.RAISE-INVENTORY"),
    V("C01", "assignment targets asserted to be names or tuples again", VIS, "        if isinstance(lvalue, mp_nodes.StarExpr):\n            lvalue = lvalue.expr\n\n        if isinstance(lvalue, mp_nodes.NameExpr | mp_nodes.MemberExpr):",
      "        assert isinstance(lvalue, mp_nodes.NameExpr | mp_nodes.MemberExpr | mp_nodes.TupleExpr)\n        if isinstance(lvalue, mp_nodes.NameExpr | mp_nodes.MemberExpr):", "C01.RAISE-INVENTORY"),
]
VARIANTS += [
    V("C05", "union members not flattened", VIS, "            union_items = mp_types.flatten_nested_unions(mypy_type.items, handle_recursive=False)\n", "            union_items = mypy_type.items\n", "C05.CTOR-TABLE"),
]
VARIANTS += [
    V("C03", "alias taken from any import ending like the name", GEN, '                if node.id in {import_id, f"{shortest_reexport_module.id}/{import_id}"}:', '                if qualified_import.qualified_name.endswith(node.name):', "C03.MOVE"),
    V("C03", "alias taken from an import of a namesake again", GEN, '                if node.id in {import_id, f"{shortest_reexport_module.id}/{import_id}"}:', '                if qualified_import.qualified_name.split(".")[-1] == node.name:', "C03.MOVE"),
    V("C03", "benign: resolutions of the import compared one by one", GEN, '                if node.id in {import_id, f"{shortest_reexport_module.id}/{import_id}"}:', '                if node.id == import_id or node.id == f"{shortest_reexport_module.id}/{import_id}":', None),
    V("C11", "re-exporters ordered by path length first", VIS, "        # Sort for snapshot tests\n        reexported_by.sort(key=lambda x: x.id)\n\n        # Get constructor docstring", "        # Sort for snapshot tests\n        reexported_by.sort(key=lambda x: (len(x.id), x.id))\n\n        # Get constructor docstring", "C11.MOVE-IMPORT-AGREE"),
    V("C11", "move keeps the last package of minimal depth", GEN, "            if len(reexport_module.id.split(\"/\")) < len(shortest_reexport_module_id.split(\"/\")):", "            if len(reexport_module.id.split(\"/\")) <= len(shortest_reexport_module_id.split(\"/\")):", "C11.MOVE-IMPORT-AGREE"),
    V("C11", "benign: sort key lambda parameter renamed", VIS, "        # Sort for snapshot tests\n        reexported_by.sort(key=lambda x: x.id)\n\n        # Get constructor docstring", "        # Sort for snapshot tests\n        reexported_by.sort(key=lambda module: module.id)\n\n        # Get constructor docstring", None),
    V("C08", "nearest package taken from the first enumerated init file", GA, "    for init in all_inits:\n        path_len = len(init.parts)\n        if shortest_len == -1:", "    if all_inits:\n        shortest_len = len(all_inits[0].parts)\n    for init in all_inits:\n        path_len = len(init.parts)\n        if shortest_len == -1:", "C08.FS-ENUM"),
    V("C17", "attribute names recorded in their emitted spelling", GEN, "            all_attr_names.add(attr_name)\n", "            all_attr_names.add(_convert_name_to_convention(attr_name, self.naming_convention))\n", "C17.OWN-FIRST"),
    V("C17", "properties not recorded as defined names", GEN, "            elif method.is_property:\n                all_method_names.add(method.name)\n", "            elif method.is_property:\n", "C17.OWN-FIRST"),
    V("C03", "tuple elements of a constructor parsed as class attributes", VIS, "                attributes.extend(self._parse_attributes(lvalue_, unanalyzed_type, is_static))", "                attributes.extend(self._parse_attributes(lvalue_, unanalyzed_type))", "C03.ATTR-TARGETS"),
    V("C12", "tuple elements of a constructor parsed as class attributes", VIS, "                attributes.extend(self._parse_attributes(lvalue_, unanalyzed_type, is_static))", "                attributes.extend(self._parse_attributes(lvalue_, unanalyzed_type))", "C12.ATTR-TARGETS"),
]
VARIANTS += [
    V("C01", "package stub directory re-assembled from its parts", GS, "            corrected_module_dir = module_dir.parent\n", "            corrected_module_dir = Path(\"/\".join(module_dir.parts[:-1]))\n", "C01.PATH-ARITH"),
    V("C01", "type of self read without a test", VIS, "                        self_type = return_stmt.expr.node.type\n                        if isinstance(self_type, mp_types.Instance):\n                            expr_type = self_type.type\n                            types.add(sds_types.NamedType(name=expr_type.name, qname=expr_type.fullname))",
      "                        expr_type = return_stmt.expr.node.type.type\n                        types.add(sds_types.NamedType(name=expr_type.name, qname=expr_type.fullname))", "C01.LIBAPI"),
    V("C01", "benign: type of self tested against None", VIS, "                        if isinstance(self_type, mp_types.Instance):\n", "                        if self_type is not None and isinstance(self_type, mp_types.Instance):\n", None),
    V("C01", "enum handlers selected by mypy's is_enum, children by the base names", WALK, "            if isinstance(node, ClassDef) and self.__is_enum(node):", "            if isinstance(node, ClassDef) and (node.info.is_enum or self.__is_enum(node)):", "C01.STACK"),
    V("C01", "inherited nested classes take part in the re-export test", GEN, "                class_string = self._create_class_string(\n                    class_=inner_class,\n                    class_indentation=inner_indentations,\n                    in_reexport_module=True,\n                )\n                superclass_methods_text",
      "                class_string = self._create_class_string(class_=inner_class, class_indentation=inner_indentations)\n                superclass_methods_text", "C03.MOVE"),
]
VARIANTS += [
    V("C07", "a docstring entry can name several results", VIS, "                    if hash(docstring.type) == hash(type_) and not any(docstring is matched for matched in matched_docstrings):", "                    if hash(docstring.type) == hash(type_):", "C07.RESULT-NAMES"),
    V("C07", "benign: matched entries removed from a copy of the list", VIS, "            matched_docstrings: list[ResultDocstring] = []\n            for type_ in return_results:\n                result_docstring = ResultDocstring()\n                for docstring in result_docstrings:\n                    if hash(docstring.type) == hash(type_) and not any(docstring is matched for matched in matched_docstrings):\n                        result_docstring = docstring\n                        matched_docstrings.append(docstring)\n                        break",
      "            result_docstrings = list(result_docstrings)\n            for type_ in return_results:\n                result_docstring = ResultDocstring()\n                for docstring in result_docstrings:\n                    if hash(docstring.type) == hash(type_):\n                        result_docstring = docstring\n                        result_docstrings.remove(docstring)\n                        break", None),
]
VARIANTS += [
    V("C05", "containers recognised by their bare name", VIS, "            if is_builtin_class and type_name in {\"tuple\", \"list\", \"set\", \"Sequence\", \"Collection\"}:", "            if type_name in {\"tuple\", \"list\", \"set\", \"Sequence\", \"Collection\"}:", "C05.CTOR-TABLE"),
    V("C05", "benign: defining module compared with a set", VIS, "            is_builtin_class = mypy_type.type.fullname.startswith((\"builtins.\", \"typing.\"))", "            is_builtin_class = mypy_type.type.module_name in {\"builtins\", \"typing\"}", None),
]
VARIANTS += [
    V("C07", "coroutine wrapper translated as the return type", VIS, "                if (\n                    node.is_coroutine\n                    and isinstance(node_ret_type, mp_types.Instance)\n                    and node_ret_type.type.fullname == \"typing.Coroutine\"\n                    and len(node_ret_type.args) == 3\n                ):\n                    node_ret_type = node_ret_type.args[2]\n", "", "C07.COROUTINE"),
]
VARIANTS += [
    V("C04", "members of a module imported under its private name become public", VIS, "(qualified_import.alias is None and not is_internal(module_name))", "(qualified_import.alias is None and not_internal)", "C04.REEXPORT-TABLE"),
    V("C15", "init files recognised by the end of their name (build graph)", GA, 'if ast_path.name == "__init__.py":', 'if ast.path.endswith("__init__.py"):', "C15.AST-FILTER"),
    V("C15", "init files recognised by the end of their name (visitor)", VIS, "is_package = node.is_package_init_file()", 'is_package = node.path.endswith("__init__.py")', "C15.AST-FILTER"),
    V("C10", "every directory written into is registered as a written placeholder", GS, "        if file_path.stem == file_path.parent.name:\n            created_module_paths.add(file_path.parent.relative_to(out_path).as_posix())", "        created_module_paths.add(file_path.parent.relative_to(out_path).as_posix())", "C10.WRITE-MODE"),
    V("C13", "matched result docstrings removed from the caller's list", VIS, "                    if hash(docstring.type) == hash(type_) and not any(docstring is matched for matched in matched_docstrings):\n                        result_docstring = docstring\n                        matched_docstrings.append(docstring)", "                    if hash(docstring.type) == hash(type_):\n                        result_docstring = docstring\n                        result_docstrings.remove(docstring)", "C13.RESULT-DOC-NAME"),
    V("C06", "type from the default only without a documented type", VIS, "                if arg_type is None and (default_is_none or default_value is not None):\n                    arg_type = mypy_expression_to_sds_type(initializer)", "                docstring = self.docstring_parser.get_parameter_documentation(function_qname=node.fullname, parameter_name=argument.variable.name, parent_class_qname=\"\")\n                if arg_type is None and docstring.type is None and (default_is_none or default_value is not None):\n                    arg_type = mypy_expression_to_sds_type(initializer)", "C06.ONE-PER-PARAM"),
    V("C05", "nullable shorthand for every member kind but literals and callables", GEN, 'if type_information["kind"] in {"NamedType", "TupleType", "ListType", "SetType", "DictType"} and not (', 'if type_information["kind"] not in {"LiteralType", "CallableType"} and not (', "C05.UNION-NORMAL"),
    V("C02", "nullable shorthand for every member kind but literals and callables", GEN, 'if type_information["kind"] in {"NamedType", "TupleType", "ListType", "SetType", "DictType"} and not (', 'if type_information["kind"] not in {"LiteralType", "CallableType"} and not (', "C05.UNION-NORMAL"),
]
VARIANTS += [
    V("C13", "the last string statement of a body is its docstring", "docstring_parsing/_helpers.py", "    for definition in definitions[:1]:", "    for definition in definitions:", "C13.MODULE-DOC"),
    V("C13", "benign: first statement through an index", "docstring_parsing/_helpers.py", "    for definition in definitions[:1]:\n        if isinstance(definition, nodes.ExpressionStmt) and isinstance(definition.expr, nodes.StrExpr):\n            full_docstring = definition.expr.value", "    if definitions and isinstance(definitions[0], nodes.ExpressionStmt) and isinstance(definitions[0].expr, nodes.StrExpr):\n        full_docstring = definitions[0].expr.value", None),
    V("C07", "only the outermost conditional expression is inferred", VIS, "                        for conditional_branch in get_conditional_branches(return_stmt.expr):", "                        for conditional_branch in [return_stmt.expr.if_expr, return_stmt.expr.else_expr]:", "C07.INFER-COLLECT"),
    V("C01", "conditional branches collected by recursing on the expression itself", MH, "            branches.extend(get_conditional_branches(branch))", "            branches.extend(get_conditional_branches(expr))", "C01.TERM"),
]
VARIANTS += [
    V("C03", "re-exports under an internal alias move the declaration", GEN, "                and is_internal(qualified_import.alias)\n                for qualified_import in reexport_module.qualified_imports", "                and False\n                for qualified_import in reexport_module.qualified_imports", "C03.MOVE"),
]
VARIANTS += [
    V("C07", "wrong type argument of the coroutine wrapper taken", VIS, "                    node_ret_type = node_ret_type.args[2]\n", "                    node_ret_type = node_ret_type.args[0]\n", "C07.COROUTINE"),
    V("C07", "benign: last type argument of the coroutine wrapper", VIS, "                    node_ret_type = node_ret_type.args[2]\n", "                    node_ret_type = node_ret_type.args[-1]\n", None),
]
VARIANTS += [
    V("C08", "docstring package searched on the module search path again (explicitly)", DP, "load(package_path.name, search_paths=[package_path.parent], docstring_parser=parser)", "load(package_path.name, search_paths=[package_path.parent, *sys.path], docstring_parser=parser)", "C08.AMBIENT"),
]
VARIANTS += [
    V("C12", "the finiteness test is evaluated but the infinite float is kept", VIS, "                    return UnknownValue(), default_is_none\n                elif isinstance(inferred_default_value, bool | int | float | NoneType):", "                    logging.warning(\"infinite default\")\n                if isinstance(inferred_default_value, bool | int | float | NoneType):", "C12.STORES"),
    V("C06", "type from the default depends on the docstring through a flag", VIS, "                if arg_type is None and (default_is_none or default_value is not None):\n                    arg_type = mypy_expression_to_sds_type(initializer)", "                docstring = self.docstring_parser.get_parameter_documentation(function_qname=node.fullname, parameter_name=argument.variable.name, parent_class_qname=\"\")\n                has_documented_type = docstring.type is not None\n                if arg_type is None and not has_documented_type and (default_is_none or default_value is not None):\n                    arg_type = mypy_expression_to_sds_type(initializer)", "C06.ONE-PER-PARAM"),
]
VARIANTS += [
    V("C09", "digit test on the last character", HELP, "    if converted_name[:1].isdigit():", "    if converted_name[-1:].isdigit():", "C09.CONVERT-SHAPE"),
]
VARIANTS += [
    V("C09", "benign: digit test on the first character with an emptiness test", HELP, "    if converted_name[:1].isdigit():", "    if converted_name and converted_name[0].isdigit():", None),
    V("C08", "benign: file list sorted in place", GA, '    for file_path in sorted(root.glob(pattern="./**/*.py")):', '    python_files = list(root.glob(pattern="./**/*.py"))\n    python_files.sort()\n    for file_path in python_files:', None),
    V("C01", "benign: alias guard split into nested ifs", VIS, "        if isinstance(mypy_type, mp_types.TypeAliasType) and not mypy_type.is_recursive:\n            mypy_type = mp_types.get_proper_type(mypy_type)\n", "        if isinstance(mypy_type, mp_types.TypeAliasType):\n            if not mypy_type.is_recursive:\n                mypy_type = mp_types.get_proper_type(mypy_type)\n", None),
    V("C07", "benign: unbound name compared with the empty string", MH, "        elif not expr.fullname:", '        elif expr.fullname == "":', None),
]
# ---- round 6: seeded changes and runtime-oracle reports
VARIANTS += [
    V("C07", "finally returns replace the returns of the other blocks", MH,
      "            return_stmts += find_return_stmts_recursive([stmt.body])\n            return_stmts += find_return_stmts_recursive(stmt.handlers)\n            if stmt.else_body:\n                return_stmts += find_return_stmts_recursive(stmt.else_body.body)\n            if stmt.finally_body:\n                return_stmts += find_return_stmts_recursive(stmt.finally_body.body)",
      "            try_return_stmts = find_return_stmts_recursive([stmt.body, *stmt.handlers])\n            if stmt.else_body:\n                try_return_stmts += find_return_stmts_recursive(stmt.else_body.body)\n            finally_return_stmts = find_return_stmts_recursive(stmt.finally_body.body) if stmt.finally_body else []\n            return_stmts += finally_return_stmts or try_return_stmts",
      "C07.RETURN-FINDER"),
    V("C07", "benign: try blocks collected into a local list first", MH,
      "            return_stmts += find_return_stmts_recursive([stmt.body])\n            return_stmts += find_return_stmts_recursive(stmt.handlers)\n",
      "            try_return_stmts = find_return_stmts_recursive([stmt.body, *stmt.handlers])\n            return_stmts += try_return_stmts\n", None),
    V("C05", "flattened union members de-duplicated by model equality", VIS,
      "            return sds_types.UnionType(types=[self.mypy_type_to_abstract_type(item) for item in union_items])",
      "            union_types = [self.mypy_type_to_abstract_type(item) for item in union_items]\n            if len(union_items) > len(mypy_type.items):\n                union_types = [type_ for i, type_ in enumerate(union_types) if type_ not in union_types[:i]]\n            return sds_types.UnionType(types=union_types)",
      "C05.CTOR-TABLE"),
    V("C05", "benign: union members translated into a local first", VIS,
      "            return sds_types.UnionType(types=[self.mypy_type_to_abstract_type(item) for item in union_items])",
      "            union_types = [self.mypy_type_to_abstract_type(item) for item in union_items]\n            return sds_types.UnionType(types=union_types)", None),
    V("C03", "member target without node taken for a type variable again", VIS,
      "            if attribute.node is None and isinstance(attribute, mp_nodes.MemberExpr):", "            if False:", "C03.COVERAGE"),
    V("C13", "sections collected into a dict keyed by kind", DP,
      "            for docstring_section in griffe_docstring.parsed:\n                if docstring_section.kind == DocstringSectionKind.text:\n                    # A docstring can have several text sections, e.g. text before and after the parameters\n                    description = f\"{description}\\n\\n{docstring_section.value}\".strip(\"\\n\")\n                elif docstring_section.kind == DocstringSectionKind.examples:\n                    for example_data in docstring_section.value:\n                        examples.append(example_data[1].strip(\"\\n\"))\n",
      "            sections = {section.kind: section.value for section in griffe_docstring.parsed}\n            description = sections.get(DocstringSectionKind.text, \"\").strip(\"\\n\")\n            examples = [example_data[1].strip(\"\\n\") for example_data in sections.get(DocstringSectionKind.examples, [])]\n",
      "C13.ACCUMULATE"),
]
_SEL_OLD = ("    shortest_id = None\n    alias = None\n    # Sorted, so that ties between re-exports of the same length are always resolved the same way\n"
            "    for module_id_tuple in sorted(module_ids, key=lambda it: (it[0], it[1] or \"\")):\n        module_id_parts = module_id_tuple[0].split(\"/\")\n"
            "        if shortest_id is None or len(module_id_parts) < len(shortest_id):\n            shortest_id = module_id_parts\n            alias = module_id_tuple[1]\n\n"
            "    if shortest_id is None:\n        return \"\", \"\"\n    return \".\".join(shortest_id), alias or \"\"\n")
VARIANTS += [
    V("C11", "import package chosen by min() over the string length of the id", HELP, _SEL_OLD,
      "    if not module_ids:\n        return \"\", \"\"\n    shortest_id, alias = min(module_ids, key=lambda it: (len(it[0]), it[0], it[1] or \"\"))\n    return shortest_id.replace(\"/\", \".\"), alias or \"\"\n",
      "C11.MOVE-IMPORT-AGREE"),
    V("C11", "benign: import package chosen by min() over the segment count", HELP, _SEL_OLD,
      "    if not module_ids:\n        return \"\", \"\"\n    shortest_id, alias = min(module_ids, key=lambda it: (len(it[0].split(\"/\")), it[0], it[1] or \"\"))\n    return shortest_id.replace(\"/\", \".\"), alias or \"\"\n",
      None),
]
VARIANTS += [
    V("C04", "imported name compared with the tail of the qualified name again", VIS,
      "                            if qname in {\n                                qualified_import.qualified_name,\n                                f\"{reexport_source.id.replace('/', '.')}.{qualified_import.qualified_name}\",\n                            } and (",
      "                            if f\".{qname}\".endswith(f\".{qualified_import.qualified_name}\") and (", "C04.REEXPORT-GUARDS"),
    V("C04", "benign: resolutions of the imported name built before the test", VIS,
      "                            if qname in {\n                                qualified_import.qualified_name,\n                                f\"{reexport_source.id.replace('/', '.')}.{qualified_import.qualified_name}\",\n                            } and (",
      "                            source_package = reexport_source.id.replace('/', '.')\n                            if qname in {qualified_import.qualified_name, f\"{source_package}.{qualified_import.qualified_name}\"} and (", None),
    V("C04", "dunder members judged by their qualified name again", VIS,
      "        if isinstance(parent, Class):\n            return parent.is_public\n",
      "        if isinstance(parent, Class) and (name == \"__init__\" or not is_internal(name)):\n            return parent.is_public\n", "C04.PUBLICITY-TABLE"),
    V("C05", "fallback class of a tuple type ignored again", VIS,
      "            if fallback.fullname != \"builtins.tuple\":", "            if False:", "C05.CTOR-TABLE"),
]
VARIANTS += [
    V("C13", "module docstring searched behind other statements again", VIS,
      "        for definition in get_mypyfile_definitions(node)[:1]:\n            if isinstance(definition, mp_nodes.ExpressionStmt) and isinstance(definition.expr, mp_nodes.StrExpr):\n                docstring = definition.expr.value\n",
      "        for definition in get_mypyfile_definitions(node):\n            if definition.__class__.__name__ in {\"FuncDef\", \"Decorator\", \"ClassDef\", \"AssignmentStmt\"}:\n                continue\n            if isinstance(definition, mp_nodes.ExpressionStmt) and isinstance(definition.expr, mp_nodes.StrExpr):\n                docstring = definition.expr.value\n                break\n",
      "C13.MODULE-DOC"),
    V("C13", "benign: first statement of the module taken by index", VIS,
      "        for definition in get_mypyfile_definitions(node)[:1]:\n            if isinstance(definition, mp_nodes.ExpressionStmt) and isinstance(definition.expr, mp_nodes.StrExpr):\n                docstring = definition.expr.value\n",
      "        definitions = get_mypyfile_definitions(node)\n        if definitions and isinstance(definitions[0], mp_nodes.ExpressionStmt) and isinstance(definitions[0].expr, mp_nodes.StrExpr):\n            docstring = definitions[0].expr.value\n",
      None),
]
VARIANTS += [
    V("C07", "None recognised through its binding again", MH,
      "        elif expr.name == \"None\":\n            # Like True and False, None is recognised by its name: in blocks mypy does not analyse it is not bound\n            return sds_types.NamedType(name=\"None\", qname=\"builtins.None\")\n        elif isinstance(expr.node, mp_nodes.Var):",
      "        elif expr.name != \"None\" and isinstance(expr.node, mp_nodes.Var):", "C07.INFER-TABLE"),
    V("C07", "inferred results share the first docstring entry of their type again", VIS,
      "                            if hash(docstring.type) == hash(result_type) and not any(\n                                docstring is matched for matched in matched_docstrings\n                            ):",
      "                            if hash(docstring.type) == hash(result_type):", "C07.RESULT-NAMES"),
]
VARIANTS += [
    V("C02", "type variable recorded under mypy's dotted name again", VIS, "name=mypy_type.name.split(\".\")[-1], upper_bound=type_", "name=mypy_type.name, upper_bound=type_", "C02.NAME-PIPELINE"),
    V("C02", "benign: last segment of the type variable name taken with rpartition", VIS, "name=mypy_type.name.split(\".\")[-1], upper_bound=type_", "name=mypy_type.name.rpartition(\".\")[2], upper_bound=type_", None),
]
VARIANTS += [
    V("C04", "star import through a deeper relative path not resolved again", VIS,
      "                                        and module_qname\n                                        in {\n                                            wildcard_import.module_name,\n                                            f\"{reexport_source.id.replace('/', '.')}.{wildcard_import.module_name}\",\n                                        }",
      "                                        and wildcard_import.module_name == module_qname", "C04.REEXPORT-GUARDS"),
]
VARIANTS += [
    V("C17", "nested classes of a private base copied without the defined names again", GEN,
      "            if not is_internal(inner_class.name) and inner_class.name not in already_defined_names:", "            if not is_internal(inner_class.name):", "C17.FILTER"),
    V("C17", "copied nested class not recorded", GEN, "                existing_names.add(inner_class.name)\n", "", "C17.FILTER"),
    V("C17", "own nested classes not among the defined names again", GEN,
      "        already_defined_names.update(inner_class.name for inner_class in class_.classes if inner_class.is_public)\n", "", "C17.OWN-FIRST"),
]
VARIANTS += [
    V("C10", "relocated module looked up by its last name again", "stubs_generator/_generate_stubs.py", "            qname=module.id.replace(\"/\", \".\"),\n            is_module=True,", "            qname=\"\",\n            is_module=True,", "C10.WRITE-MODE"),
]
VARIANTS += [
    V("C03", "re-exporting modules found by the tail of the qualified name again", VIS,
      "                    if qname in {reexport_name_backward, f\"{mod.id.replace('/', '.')}.{reexport_name_backward}\"}:\n                        reexported_by.add(mod)",
      "                    if True:\n                        reexported_by.add(mod)", "C03.MOVE"),
]
# ---- fourth rewrite probe (behaviour-preserving rewrites of the code the sixth-round repairs touched): the three that raised a false alarm are locked in
VARIANTS += [
    V("C04", "benign: by-name resolutions compared one by one", VIS,
      "                            if qname in {\n                                qualified_import.qualified_name,\n                                f\"{reexport_source.id.replace('/', '.')}.{qualified_import.qualified_name}\",\n                            } and (",
      "                            if (\n                                qname == qualified_import.qualified_name\n                                or qname == f\"{reexport_source.id.replace('/', '.')}.{qualified_import.qualified_name}\"\n                            ) and (", None),
    V("C04", "benign: star import resolutions compared one by one", VIS,
      "                                        and module_qname\n                                        in {\n                                            wildcard_import.module_name,\n                                            f\"{reexport_source.id.replace('/', '.')}.{wildcard_import.module_name}\",\n                                        }",
      "                                        and (\n                                            module_qname == wildcard_import.module_name\n                                            or module_qname == f\"{reexport_source.id.replace('/', '.')}.{wildcard_import.module_name}\"\n                                        )", None),
    V("C10", "benign: relocated module id spelled with dots by split and join", "stubs_generator/_generate_stubs.py",
      "            qname=module.id.replace(\"/\", \".\"),\n            is_module=True,", "            qname=\".\".join(module.id.split(\"/\")),\n            is_module=True,", None),
]
