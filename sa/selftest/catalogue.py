"""Variant catalogue (DESIGN Appendix C).  Each entry: property, name, file, old text, new text, expected rule
(None = benign: every rule must stay silent).  Edits are applied to a scratch copy only."""
from .variants import Variant as V

GEN = "stubs_generator/_stub_string_generator.py"
HELP = "stubs_generator/_helper.py"
GS = "stubs_generator/_generate_stubs.py"
VIS = "api_analyzer/_ast_visitor.py"
MH = "api_analyzer/_mypy_helpers.py"
TY = "api_analyzer/_types.py"
API = "api_analyzer/_api.py"
WALK = "api_analyzer/_ast_walker.py"
GA = "api_analyzer/_get_api.py"
DP = "docstring_parsing/_docstring_parser.py"

VARIANTS = [
    # ------------------------------------------------------------------ C19
    V("C19", "delete SetType arm", TY, "            case SetType.__name__:\n                return SetType.from_dict(d)\n", "", "C19.KIND-DISPATCH"),
    V("C19", "wrong delegate", TY, "return ListType.from_dict(d)", "return SetType.from_dict(d)", "C19.KIND-DISPATCH"),
    V("C19", "FinalType reads other key", TY, 'FinalType(AbstractType.from_dict(d["type"]))', 'FinalType(AbstractType.from_dict(d["type_"]))', "C19.KEY-AGREEMENT"),
    V("C19", "DictType swaps keys on read", TY, 'DictType(AbstractType.from_dict(d["key_type"]), AbstractType.from_dict(d["value_type"]))',
      'DictType(AbstractType.from_dict(d["value_type"]), AbstractType.from_dict(d["key_type"]))', "C19.KEY-AGREEMENT"),
    V("C19", "UnionType hash by tuple", TY, "return hash(frozenset(self.types))", "return hash(tuple(self.types))", "C19.EQ-HASH"),
    V("C19", "NamedType eq ignores qname", TY, "return self.name == other.name and self.qname == other.qname", "return self.name == other.name", "C19.EQ-HASH"),
    V("C19", "TypeVar bound unparsed", TY, "AbstractType.from_dict(upper_bound) if upper_bound is not None else None", "upper_bound", "C19.NESTED-PARSE"),
    V("C19", "CallableType return unparsed", TY, 'return CallableType(params, AbstractType.from_dict(d["return_type"]))', 'return CallableType(params, d["return_type"])', "C19.NESTED-PARSE"),
    V("C19", "kind written as literal of other class", TY, 'return {"kind": self.__class__.__name__, "types": type_list}', 'return {"kind": "ListType", "types": type_list}', "C19.KIND-DISPATCH"),
    V("C19", "unparse round trip", TY, "<<unparse>>", "", None),
    V("C19", "benign: NamedType eq reordered", TY, "return self.name == other.name and self.qname == other.qname", "return self.qname == other.qname and self.name == other.name", None),
    V("C19", "benign: explicit kind literal", TY, 'return {"kind": self.__class__.__name__, "name": self.name, "qname": self.qname}', 'return {"kind": "NamedType", "name": self.name, "qname": self.qname}', None),
    # ------------------------------------------------------------------ C06
    V("C06", "drop ARG_NAMED_OPT", MH, "elif arg.kind in (ArgKind.ARG_NAMED, ArgKind.ARG_NAMED_OPT):", "elif arg.kind == ArgKind.ARG_NAMED:", "C06.ARGKIND-TABLE"),
    V("C06", "pos_only swapped", MH, "arg.kind in {ArgKind.ARG_POS, ArgKind.ARG_OPT} and arg.pos_only", "arg.kind in {ArgKind.ARG_POS, ArgKind.ARG_OPT} and not arg.pos_only", "C06.ARGKIND-TABLE"),
    V("C06", "skip kwargs in visitor", VIS, "            arg_name = argument.variable.name\n            arg_kind = get_argument_kind(argument)\n",
      "            arg_name = argument.variable.name\n            arg_kind = get_argument_kind(argument)\n            if arg_kind == ParameterAssignment.NAMED_VARARG and initializer is None and arg_type is None:\n                continue\n", "C06.ONE-PER-PARAM"),
    V("C06", "is_instance_method=is_method", GEN, "is_instance_method=not is_static and is_method,", "is_instance_method=is_method,", "C06.RECEIVER"),
    V("C06", "never mark first loop skipped", GEN, "                first_loop_skipped = True\n                continue", "                continue", "C06.RECEIVER"),
    V("C06", "swap true/false", GEN, 'default_value = "true" if param_default_value else "false"', 'default_value = "false" if param_default_value else "true"', "C06.DEFAULT-RENDER"),
    V("C06", "bool test after number", GEN, "                    elif isinstance(param_default_value, bool):\n                        # Bool values have to be written in lower case\n                        default_value = \"true\" if param_default_value else \"false\"\n                    elif param_default_value is None:",
      "                    elif isinstance(param_default_value, int):\n                        default_value = f\"{param_default_value}\"\n                    elif isinstance(param_default_value, bool):\n                        default_value = \"true\" if param_default_value else \"false\"\n                    elif param_default_value is None:", "C06.DEFAULT-RENDER"),
    V("C06", "optional by truthiness", VIS, "is_optional=default_value is not None or default_is_none,", "is_optional=bool(default_value) or default_is_none,", "C06.ONE-PER-PARAM"),
    V("C06", "to_dict kind by value", API, '"assigned_by": self.assigned_by.name,', '"assigned_by": self.name,', "C06.SERIALISE"),
    V("C06", "False default lost", MH, '            case "False":\n                return False\n', '            case "False":\n                return None\n', "C06.LITERAL-VALUE"),
    V("C06", "unparse round trip", GEN, "<<unparse>>", "", None),
    V("C06", "benign: kind test as equality chain", MH, "elif arg.kind in (ArgKind.ARG_NAMED, ArgKind.ARG_NAMED_OPT):", "elif arg.kind == ArgKind.ARG_NAMED or arg.kind == ArgKind.ARG_NAMED_OPT:", None),
    # ------------------------------------------------------------------ C20
    V("C20", "flush before rendering parameters", GEN, "        # Parameters\n        func_params = self._create_parameter_string(\n            parameters=function.parameters,",
      "        todo_first = self._create_todo_msg(indentations)\n        func_params = self._create_parameter_string(\n            parameters=function.parameters,", "C20.FLUSH"),
    V("C20", "early flush replaces final flush", GEN, "            f\"{self._create_todo_msg(indentations)}\"\n            f\"{docstring}\"\n            f\"{indentations}@Pure\\n\"", "            f\"{docstring}\"\n            f\"{indentations}@Pure\\n\"", "C20.FLUSH"),
    V("C20", "variadic for NAME_ONLY", GEN, "if assigned_by in {ParameterAssignment.POSITIONAL_VARARG, ParameterAssignment.NAMED_VARARG}:", "if assigned_by in {ParameterAssignment.POSITIONAL_VARARG, ParameterAssignment.NAMED_VARARG, ParameterAssignment.NAME_ONLY}:", "C20.GUARDS"),
    V("C20", "marker without message", GEN, "            key_data = self._create_type_string(type_data[\"key_type\"])", "            self._current_todo_msgs.add(\"no dict support\")\n            key_data = self._create_type_string(type_data[\"key_type\"])", "C20.MARKER-TABLE"),
    V("C20", "no reset at module start", GEN, "        self._current_todo_msgs: set[str] = set()\n        return self._create_module_string(module)", "        return self._create_module_string(module)", "C20.RESET"),
    V("C20", "flush does not clear", GEN, "        # Empty the message list\n        self._current_todo_msgs = set()\n", "", "C20.FLUSH"),
    V("C20", "OPT_POS_ONLY by default value", GEN, "ParameterAssignment.POSITION_ONLY and parameter.is_optional", "ParameterAssignment.POSITION_ONLY and parameter.default_value is not None", "C20.GUARDS"),
    V("C20", "class todo flushed after attributes", GEN, "        class_signature_todo = self._create_todo_msg(class_indentation)\n\n        # Attributes\n        class_text, added_class_attributes = self._create_class_attribute_string(class_.attributes, inner_indentations)\n",
      "        # Attributes\n        class_text, added_class_attributes = self._create_class_attribute_string(class_.attributes, inner_indentations)\n        class_signature_todo = self._create_todo_msg(class_indentation)\n", "C20.FLUSH"),
    V("C20", "set marker only with args", GEN, "            if name == \"Set\":\n                self._current_todo_msgs.add(\"no set support\")", "            if name == \"Set\" and types:\n                self._current_todo_msgs.add(\"no set support\")", "C20.GUARDS"),
    V("C20", "unparse round trip", GEN, "<<unparse>>", "", None),
    V("C20", "benign: guard as equality chain", GEN, "if assigned_by in {ParameterAssignment.POSITIONAL_VARARG, ParameterAssignment.NAMED_VARARG}:", "if assigned_by == ParameterAssignment.POSITIONAL_VARARG or assigned_by == ParameterAssignment.NAMED_VARARG:", None),
    V("C20", "benign: extra unused table key", GEN, '                "unknown": "Unknown type - Type could not be parsed.",', '                "unknown": "Unknown type - Type could not be parsed.",\n                "spare": "Unused.",', None),
    # ------------------------------------------------------------------ C05
    V("C05", "swap Int/Float", GEN, '                case "int":\n                    return "Int"', '                case "int":\n                    return "Float"', "C05.LEAF-TABLE"),
    V("C05", "Sequence to SetType", VIS, '                    case "Sequence":\n                        return sds_types.ListType(types=types)', '                    case "Sequence":\n                        return sds_types.SetType(types=types)', "C05.CTOR-TABLE"),
    V("C05", "FinalType raw child", GEN, '            return self._create_type_string(type_data["type"])', '            return str(type_data["type"])', "C05.KIND-RENDER"),
    V("C05", "union list comprehension", GEN, 'types = list({self._create_type_string(type_) for type_ in type_data["types"]})', 'types = [self._create_type_string(type_) for type_ in type_data["types"]]', "C05.UNION-NORMAL"),
    V("C05", "union no sort", GEN, '            types.sort()\n\n            if types:\n                if len(types) == 2 and none_type_name in types and has_named_type:', '            if types:\n                if len(types) == 2 and none_type_name in types and has_named_type:', "C05.UNION-NORMAL"),
    V("C05", "dict value untranslated", GEN, '            value_data = self._create_type_string(type_data["value_type"])', '            value_data = type_data["value_type"]["kind"]', "C05.RECURSE"),
    V("C05", "dict key/value swapped in visitor", VIS, "                    key_type=self.mypy_type_to_abstract_type(mypy_type.args[0]),\n                    value_type=self.mypy_type_to_abstract_type(mypy_type.args[1]),", "                    key_type=self.mypy_type_to_abstract_type(mypy_type.args[1]),\n                    value_type=self.mypy_type_to_abstract_type(mypy_type.args[0]),", "C05.CTOR-TABLE"),
    V("C05", "nullable for 3 members", GEN, "if len(types) == 2 and none_type_name in types and has_named_type:", "if len(types) >= 2 and none_type_name in types and has_named_type:", "C05.UNION-NORMAL"),
    V("C05", "none test self-conjunction", GEN, 'type_["kind"] == "NamedType" and type_["qname"] == "builtins.None" for type_ in type_data["types"]', 'type_["kind"] == "NamedType" and type_["kind"] for type_ in type_data["types"]', "C05.NONE-TEST"),
    V("C05", "callable args untranslated", VIS, "parameter_types=[self.mypy_type_to_abstract_type(arg_type) for arg_type in mypy_type.arg_types],", "parameter_types=[sds_types.NamedType(name=str(arg_type), qname=str(arg_type)) for arg_type in mypy_type.arg_types],", "C05.CTOR-TABLE"),
    V("C05", "tuple rendered as List", GEN, '            return f"Tuple<{\', \'.join(types)}>"', '            return f"List<{\', \'.join(types)}>"', "C05.KIND-RENDER"),
    V("C05", "unparse round trip", GEN, "<<unparse>>", "", None),
    V("C05", "benign: leaf match as if-chain", GEN, '                case "int":\n                    return "Int"\n                case "str":\n                    return "String"', '                case "int":\n                    return "Int"\n                case "str" if True:\n                    return "String"', None),
    # ------------------------------------------------------------------ C07
    V("C07", "stop descending if-else", MH, "            if stmt.else_body:\n                return_stmts += find_return_stmts_recursive(stmt.else_body.body)\n        elif isinstance(stmt, mp_nodes.Block):", "        elif isinstance(stmt, mp_nodes.Block):", "C07.RETURN-FINDER"),
    V("C07", "drop WithStmt arm", MH, "        elif isinstance(stmt, mp_nodes.WithStmt):\n            return_stmts += find_return_stmts_recursive(stmt.body.body)\n", "", "C07.RETURN-FINDER"),
    V("C07", "skip unreachable blocks", MH, "        elif isinstance(stmt, mp_nodes.Block):\n            return_stmts += find_return_stmts_recursive(stmt.body)", "        elif isinstance(stmt, mp_nodes.Block):\n            if stmt.is_unreachable:\n                continue\n            return_stmts += find_return_stmts_recursive(stmt.body)", "C07.RETURN-FINDER"),
    V("C07", "float literal inferred as int", MH, 'return sds_types.NamedType(name="float", qname="builtins.float")', 'return sds_types.NamedType(name="int", qname="builtins.int")', "C07.INFER-TABLE"),
    V("C07", "result named by constant", VIS, "                result_name = result_docstring.name or next(name_generator)\n\n                all_results.append(", '                result_name = result_docstring.name or "result"\n\n                all_results.append(', "C07.RESULT-NAMES"),
    V("C07", "id uses other name", VIS, '                        id=f"{function_id}/{result_name}",\n                        type=type_,\n                        name=f"{result_name}",\n                    ),\n                )\n        else:', '                        id=f"{function_id}/{function_id}",\n                        type=type_,\n                        name=f"{result_name}",\n                    ),\n                )\n        else:', "C07.RESULT-NAMES"),
    V("C07", "generator starts at 0", VIS, "for x in range(1, 1000):", "for x in range(0, 1000):", "C07.RESULT-NAMES"),
    V("C07", "None suppressed only as sole result", GEN, '            if result_type["kind"] == "NamedType" and result_type["qname"] == "builtins.None":\n                return ""', '            if len(function_results) == 1 and result_type["kind"] == "NamedType" and result_type["qname"] == "builtins.None":\n                return ""', "C07.NONE-SUPPRESS"),
    V("C07", "constructor gets results", VIS, '        if node.name == "__init__":\n            return []\n\n        # Get type', '        # Get type', "C07.NONE-SUPPRESS"),
    V("C07", "inferred type not collected", VIS, "                        type_ = mypy_expression_to_sds_type(return_stmt.expr)\n                        if isinstance(type_, sds_types.NamedType | sds_types.TupleType):\n                            types.add(type_)", "                        type_ = mypy_expression_to_sds_type(return_stmt.expr)\n                        if isinstance(type_, sds_types.NamedType):\n                            types.add(type_)", "C07.INFER-COLLECT"),
    V("C07", "unparse round trip", VIS, "<<unparse>>", "", None),
    V("C07", "benign: while/for split", MH, "        elif isinstance(stmt, mp_nodes.WhileStmt | mp_nodes.ForStmt):", "        elif isinstance(stmt, (mp_nodes.WhileStmt, mp_nodes.ForStmt)):", None),
    # ------------------------------------------------------------------ C14
    V("C14", "skip override when warnings ignored", VIS, "            if doc_type is not None and (\n                code_type is None or self.type_source_preference == TypeSourcePreference.DOCSTRING\n            ):", "            if doc_type is not None and self.type_source_warning == TypeSourceWarning.WARN and (\n                code_type is None or self.type_source_preference == TypeSourcePreference.DOCSTRING\n            ):", "C14."),
    V("C14", "prefer docstring under CODE", VIS, "code_type is None or self.type_source_preference == TypeSourcePreference.DOCSTRING", "code_type is None or self.type_source_preference == TypeSourcePreference.CODE", "C14.DECISION"),
    V("C14", "result compares object", VIS, "and result_type.type != result_doc_type", "and result_type != result_doc_type", "C14.DECISION"),
    V("C14", "warn only for identical", VIS, "                and code_type != doc_type\n", "                and code_type == doc_type\n", "C14.DECISION"),
    V("C14", "preference consulted for names", VIS, "            result_name = result_docstrings[0].name or next(name_generator)", "            result_name = (result_docstrings[0].name if self.type_source_preference == TypeSourcePreference.DOCSTRING else \"\") or next(name_generator)", "C14.PREF-SLICE"),
    V("C14", "result override under CODE", VIS, "                elif self.type_source_preference == TypeSourcePreference.DOCSTRING:\n                    # Overwrite", "                elif self.type_source_preference == TypeSourcePreference.CODE:\n                    # Overwrite", "C14.DECISION"),
    V("C14", "warning block mutates", VIS, "                msg = f\"Different type hint and docstring types for '{function_id}'.\"\n                logging.warning(msg)", "                msg = f\"Different type hint and docstring types for '{function_id}'.\"\n                logging.warning(msg)\n                parameters[i] = dataclasses.replace(parameter, type=None)", "C14."),
    V("C14", "unparse round trip", VIS, "<<unparse>>", "", None),
    # ------------------------------------------------------------------ C15
    V("C15", "add testing", GA, '"docs" in file_path.parts', '"docs" in file_path.parts or "testing" in file_path.parts', "C15.EXCLUDE-TABLE"),
    V("C15", "substring test", GA, '"test" in file_path.parts', '"test" in str(file_path)', "C15.EXCLUDE-TABLE"),
    V("C15", "docs not excluded", GA, ' or "docs" in file_path.parts', "", "C15.EXCLUDE-TABLE"),
    V("C15", "filter only modules", GA, '        # Check if the current path is a test directory\n        if not is_test_run and ("test" in file_path.parts or "tests" in file_path.parts or "docs" in file_path.parts):\n            log_msg = f"Skipping test file in {file_path}"\n            logging.info(log_msg)\n            continue\n\n        # Check if the current file is an init file\n        if file_path.parts[-1] == "__init__.py":\n            # if a directory contains an __init__.py file it\'s a package\n            package_paths.append(\n                str(file_path.parent),\n            )\n            continue\n',
      '        # Check if the current file is an init file\n        if file_path.parts[-1] == "__init__.py":\n            # if a directory contains an __init__.py file it\'s a package\n            package_paths.append(\n                str(file_path.parent),\n            )\n            continue\n\n        # Check if the current path is a test directory\n        if not is_test_run and ("test" in file_path.parts or "tests" in file_path.parts or "docs" in file_path.parts):\n            log_msg = f"Skipping test file in {file_path}"\n            logging.info(log_msg)\n            continue\n', "C15.EXCLUDE-TABLE"),
    V("C15", "non recursive glob", GA, 'root.glob(pattern="./**/*.py")', 'root.glob(pattern="./*.py")', "C15.GLOB"),
    V("C15", "flag consulted in walker loop", GA, "    for tree in mypy_asts:\n        walker.walk(tree=tree)", "    for tree in mypy_asts:\n        if is_test_run or \"conftest\" not in tree.path:\n            walker.walk(tree=tree)", "C15.FLAG-SLICE"),
    V("C15", "all init asts taken", GA, "            if ast_package_path in package_paths:\n                package_ast.append(ast)", "            package_ast.append(ast)", "C15.AST-FILTER"),
    V("C15", "unparse round trip", GA, "<<unparse>>", "", None),
    V("C15", "benign: set membership", GA, '("test" in file_path.parts or "tests" in file_path.parts or "docs" in file_path.parts)', '(not {"test", "tests", "docs"}.isdisjoint(file_path.parts))', None),
    # ------------------------------------------------------------------ C02
    V("C02", "delete keyword val", HELP, '        "val",\n', "", "C02.KW-TABLE"),
    V("C02", "misspell yield", HELP, '        "yield",', '        "yeld",', "C02.KW-TABLE"),
    V("C02", "no escaper for parameters", GEN, "            camel_case_name = _replace_if_safeds_keyword(camel_case_name)\n\n            # Create string and append to the list", "            # Create string and append to the list", "C02.NAME-PIPELINE"),
    V("C02", "no escaper for attributes", GEN, "            attr_name_camel_case = _replace_if_safeds_keyword(attr_name_camel_case)\n", "", "C02.NAME-PIPELINE"),
    V("C02", "no escaper for import names", GEN, "            name = _replace_if_safeds_keyword(name)\n", "", "C02.NAME-PIPELINE"),
    V("C02", "escape before conversion", GEN, "                type_var_name = _convert_name_to_convention(type_var.name, self.naming_convention)\n                type_var_name = _replace_if_safeds_keyword(type_var_name)", "                type_var_name = _convert_name_to_convention(_replace_if_safeds_keyword(type_var.name), self.naming_convention)", "C02.NAME-PIPELINE"),
    V("C02", "path escaped as one string", GEN, "            from_ = _replace_if_safeds_keyword_in_path(from_)", "            from_ = _replace_if_safeds_keyword(from_)", "C02.NAME-PIPELINE"),
    V("C02", "class brace not closed", GEN, '        class_text += f"{class_indentation}}}"\n', "", "C02.DYCK"),
    V("C02", "parameter paren not closed", GEN, '            f"({func_params}){result_string}"', '            f"({func_params}{result_string}"', "C02.DYCK"),
    V("C02", "literal bracket not closed", GEN, """            return f"literal<{', '.join(types)}>\"""", """            return f"literal<{', '.join(types)}\"""", "C02.DYCK"),
    V("C02", "imports before package", GEN, '        module_header += self._create_imports_string()\n\n        return f"{docstring}{module_header}{module_text}", package_info', '        module_header = self._create_imports_string() + module_header\n\n        return f"{docstring}{module_header}{module_text}", package_info', "C02.HEADER"),
    V("C02", "todo block without final newline", GEN, '        return indentations + f"\\n{indentations}".join(todo_msgs) + "\\n"', '        return indentations + f"\\n{indentations}".join(todo_msgs)', "C02.TODO-LINES"),
    V("C02", "docstring comment not closed", GEN, '        return f"{indentations}/**\\n{indentations} * {full_docstring}{indentations} */\\n"', '        return f"{indentations}/**\\n{indentations} * {full_docstring}{indentations}\\n"', "C02."),
    V("C02", "unparse round trip", GEN, "<<unparse>>", "", None),
    V("C02", "benign: extra keyword", HELP, '        "yield",', '        "yield",\n        "match",', None),
    V("C02", "benign: temp around pipeline", GEN, "            camel_case_name = _replace_if_safeds_keyword(camel_case_name)\n\n            # Create string and append to the list", "            escaped_name = _replace_if_safeds_keyword(camel_case_name)\n            camel_case_name = escaped_name\n\n            # Create string and append to the list", None),
]
