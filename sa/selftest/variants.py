"""Self-validation of the checkers on source variants (DESIGN section 6).

A variant is a scratch copy of /repo's ``src`` tree (temporary directory outside /repo and /verif, removed in a
``finally``) with one edit applied.  The variant is *analysed* (``SA_REPO=<copy>``), never executed.
Breaking variants must make the named rule fire; benign variants must leave every rule of the property silent.
A failure here means the checker is wrong (ANALYSIS-ERROR), it is never reported as a violation of the property.
"""
from __future__ import annotations

import ast
import json
import os
import shutil
import subprocess
import sys
import tempfile
from concurrent.futures import ThreadPoolExecutor
from pathlib import Path

from ..core.report import Collector
from ..core.source import PKG, AnalysisError, repo_root

VERIF = Path(__file__).resolve().parents[2]


class Variant:
    def __init__(self, prop: str, name: str, file: str, old: str, new: str, expect: str | None, count: int = 1):
        self.prop, self.name, self.file, self.old, self.new, self.expect, self.count = prop, name, file, old, new, expect, count


def _load() -> list[Variant]:
    from . import catalogue
    return catalogue.VARIANTS


def unparse_roundtrip(text: str) -> str:
    return ast.unparse(ast.parse(text)) + "\n"


def run_one(v: Variant, base: Path) -> dict:
    tmp = Path(tempfile.mkdtemp(prefix="sa_variant_"))
    try:
        dst = tmp / "src" / PKG
        shutil.copytree(base / "src" / PKG, dst)
        f = dst / v.file
        text = f.read_text()
        if v.old == "<<unparse>>":
            for p in dst.rglob("*.py"):
                p.write_text(unparse_roundtrip(p.read_text()))
        else:
            olds = v.old if isinstance(v.old, (list, tuple)) else [v.old]
            news = v.new if isinstance(v.new, (list, tuple)) else [v.new]
            if any(text.count(o) < 1 for o in olds):
                return {"variant": v.name, "status": "anchor-missing"}
            for o, nw in zip(olds, news):
                text = text.replace(o, nw, v.count)
            try:
                ast.parse(text)
            except SyntaxError as e:
                return {"variant": v.name, "status": f"variant does not parse: {e}"}
            f.write_text(text)
        env = dict(os.environ, SA_REPO=str(tmp), SA_VARIANT="1")
        r = subprocess.run([sys.executable, str(VERIF / "sa" / "run.py"), "variant-check", v.prop], env=env,
                           capture_output=True, text=True, timeout=600)
        try:
            res = json.loads(r.stdout.strip().splitlines()[-1])
        except Exception:  # noqa: BLE001
            return {"variant": v.name, "status": f"checker crashed: {r.stdout[-300:]} {r.stderr[-300:]}"}
        return {"variant": v.name, "status": "ran", **res}
    finally:
        shutil.rmtree(tmp, ignore_errors=True)


def run(prop: str, col: Collector) -> None:
    vs = [v for v in _load() if v.prop == prop]
    if not vs:
        col.extra["variants"] = "none defined for this property"
        return
    base = repo_root()
    with ThreadPoolExecutor(max_workers=16) as ex:
        results = list(ex.map(lambda v: run_one(v, base), vs))
    base_findings = {f"{o.rule} {o.key}" for o in col.obs if not o.ok}
    fired, silent, skipped, wrong = 0, 0, 0, []
    detail = []
    for v, r in zip(vs, results):
        if r["status"] == "anchor-missing":
            skipped += 1
            detail.append({"variant": v.name, "result": "skipped (edit anchor not present in this tree)"})
            continue
        if r["status"] != "ran":
            wrong.append(f"{v.name}: {r['status']}")
            continue
        new_rules = {f.split(" ")[0] for f in r.get("findings", []) if f not in base_findings}
        if r.get("error"):
            # an analysis error on a variant is acceptable only for breaking variants (fail-closed)
            if v.expect is None:
                wrong.append(f"{v.name}: benign variant made the analysis fail: {r['error']}")
            else:
                fired += 1
                detail.append({"variant": v.name, "result": f"analysis refuses the variant (fail-closed): {r['error'][:120]}"})
            continue
        if v.expect is None:
            if new_rules:
                wrong.append(f"{v.name}: benign variant raised {sorted(new_rules)}")
            else:
                silent += 1
                detail.append({"variant": v.name, "result": "silent (benign)"})
        else:
            if any(x.startswith(v.expect) for x in new_rules):
                fired += 1
                detail.append({"variant": v.name, "result": f"fired {sorted(new_rules)}"})
            else:
                wrong.append(f"{v.name}: expected {v.expect} to fire, got {sorted(new_rules)}")
    col.extra["variants_fired"] = fired
    col.extra["variants_silent"] = silent
    col.extra["variants_skipped"] = skipped
    col.extra["variant_results"] = detail
    col.notes.append(f"Self-validation: {fired} breaking variants detected, {silent} benign variants silent, {skipped} skipped.")
    if wrong:
        raise AnalysisError("checker self-validation failed: " + " | ".join(wrong))
