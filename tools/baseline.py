#!/venv/bin/python
"""Run /repo's (or TRY_REPO's) pinned test suite and report whether every baseline test still passes (NOT a check)."""
import json, os, subprocess, sys, tempfile, xml.etree.ElementTree as ET
repo = os.environ.get("TRY_REPO", "/repo")
base = set(json.load(open("/root/.vp/BASELINE.json"))["stable_pass"])
fd, path = tempfile.mkstemp(suffix=".xml"); os.close(fd)
r = subprocess.run(["/venv/bin/python", "-m", "pytest", "-q", "-p", "no:cacheprovider", "--timeout=900", "--continue-on-collection-errors", "-x" if False else "-q",
                    f"--junitxml={path}"] + sys.argv[1:], cwd=repo, capture_output=True, text=True, env=dict(os.environ, PYTHONPATH=f"{repo}/src"))
passed = set(); other = {}
for tc in ET.parse(path).getroot().iter("testcase"):
    tid = f"{tc.get('classname')}::{tc.get('name')}"
    if any(c.tag in ("failure", "error", "skipped") for c in tc):
        other[tid] = [c.tag for c in tc][0]
    else:
        passed.add(tid)
os.unlink(path)
missing = sorted(base - passed)
print(r.stdout.strip().splitlines()[-1] if r.stdout.strip() else r.stderr[-300:])
print(f"baseline {len(base)}: passing {len(base & passed)}, not passing {len(missing)}")
for m in missing[:20]:
    print("  NOT PASSING:", m, other.get(m, "absent"))
sys.exit(1 if missing else 0)
