#!/venv/bin/python
"""Confirm a seeded change (NOT a check): in a scratch git worktree of /repo's HEAD under /tmp, run the seed's
demonstration without and with the change, run the pinned test suite with the change, and run the checks on a
scratch copy with the change.  The worktree is removed afterwards.  usage: confirmseed.py <seed dir> <id> [PROP ...]"""
import json, os, shutil, subprocess, sys, tempfile
from pathlib import Path
VERIF = Path(__file__).resolve().parents[1]
seed, sid = Path(sys.argv[1]), sys.argv[2]
props = sys.argv[3:]
wt = Path(tempfile.mkdtemp(prefix=f"confirm_{sid}_")) / "wt"
res = {"id": sid, "seed": str(seed)}
def demo():
    cwd = tempfile.mkdtemp(prefix="demo_")
    try:
        r = subprocess.run(["/venv/bin/python", str(seed / "demo.py")], cwd=cwd, capture_output=True, text=True, timeout=1500,
                           env=dict(os.environ, PYTHONPATH=str(wt / "src"), PYTHONHASHSEED=os.environ.get("PYTHONHASHSEED", "0")))
        return r.returncode, (r.stdout + r.stderr)[-600:]
    finally:
        shutil.rmtree(cwd, ignore_errors=True)
try:
    subprocess.run(["git", "-C", "/repo", "worktree", "add", "-q", "--detach", str(wt), "HEAD"], check=True, capture_output=True)
    res["demo_clean"], out0 = demo()
    r = subprocess.run(["git", "-C", str(wt), "apply", str(seed / "patch.diff")], capture_output=True, text=True)
    if r.returncode:
        r = subprocess.run(["patch", "-p1", "-s", "-d", str(wt), "-i", str(seed / "patch.diff")], capture_output=True, text=True)
    if r.returncode:
        res["apply"] = "FAILED: " + (r.stdout + r.stderr)[-300:]
    else:
        res["apply"] = "ok"
        res["demo_patched"], out1 = demo()
        res["demo_patched_tail"] = out1[-300:]
        b = subprocess.run(["/venv/bin/python", str(VERIF / "tools/baseline.py")], capture_output=True, text=True, env=dict(os.environ, TRY_REPO=str(wt)))
        res["baseline"] = b.stdout.strip().splitlines()[-1] if b.returncode == 0 else "FAIL: " + b.stdout[-400:]
        d = subprocess.run(["git", "-C", str(wt), "diff"], capture_output=True, text=True).stdout
        (seed / "patch.current.diff").write_text(d)
        s = subprocess.run(["/venv/bin/python", str(VERIF / "tools/seedtest.py"), str(seed)] + props, capture_output=True, text=True)
        try:
            res["detected_by"] = json.loads(s.stdout[s.stdout.index("{"):])["detected_by"]
        except Exception:
            res["detected_by"] = "ERR " + s.stdout[-200:] + s.stderr[-200:]
finally:
    subprocess.run(["git", "-C", "/repo", "worktree", "remove", "--force", str(wt)], capture_output=True)
    shutil.rmtree(wt.parent, ignore_errors=True)
print(json.dumps(res))
