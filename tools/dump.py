"""Triage helper: print every obligation of a property's check (rule, verdict, key, fact)."""
import sys, importlib
from pathlib import Path
sys.path.insert(0, str(Path(__file__).resolve().parents[1]))
from sa.core.report import Collector
from sa.core.ctx import Ctx
prop = sys.argv[1]
only = sys.argv[2] if len(sys.argv) > 2 else ""
col = Collector(prop)
orig = col.spec
def spec(rule, clause, engine, floor=1): orig(rule, clause, engine, 0)
col.spec = spec
importlib.import_module(f"sa.rules.{prop.lower()}").check(Ctx(), col, "quick")
for o in col.obs:
    if only and only not in o.rule and only != "bad": continue
    if only == "bad" and o.ok: continue
    print(("ok  " if o.ok else "BAD ") + o.rule, o.key, "|", o.fact[:200], ("|| " + o.what[:200]) if o.what else "")
import os; os._exit(0)
