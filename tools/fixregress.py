#!/venv/bin/python
"""For every `fix:` commit of /repo: reverse it on a scratch copy of /repo/src and check that the rule recorded for it
in known_findings.json (status fixed) reports the construct again.  NOT a registered check (the thorough tiers do the
same for several repairs through the variant catalogue); used to validate the `fixed` entries."""
import json, os, shutil, subprocess, sys, tempfile
from concurrent.futures import ThreadPoolExecutor
from pathlib import Path
VERIF = Path(__file__).resolve().parents[1]
kf = [f for f in json.loads((VERIF / "known_findings.json").read_text())["findings"] if f["status"] == "fixed"]
log = subprocess.run(["git", "-C", "/repo", "log", "--format=%H %s"], capture_output=True, text=True).stdout.splitlines()
fixes = [l.split(" ", 1) for l in log if l.split(" ", 1)[1].startswith("fix:")]
def one(hs):
    h, subj = hs
    entries = [f for f in kf if f.get("commit", "").startswith(h[:7]) or h.startswith(f.get("commit", "x")[:7])]
    if not entries:
        return h[:7], subj, "NO-ENTRY", []
    tmp = Path(tempfile.mkdtemp(prefix="fixregress_"))
    try:
        shutil.copytree("/repo/src", tmp / "src")
        diff = subprocess.run(["git", "-C", "/repo", "show", "--format=", h, "--", "src"], capture_output=True, text=True).stdout
        r = subprocess.run(["patch", "-R", "-p1", "-s", "-d", str(tmp)], input=diff, capture_output=True, text=True)
        if r.returncode:
            return h[:7], subj, "REVERSE-FAILED (later commits touch the same lines)", []
        res = []
        for prop in sorted({e["property"] for e in entries}):
            o = subprocess.run([sys.executable, str(VERIF / "sa/run.py"), "variant-check", prop], env=dict(os.environ, SA_REPO=str(tmp)), capture_output=True, text=True)
            try:
                found = json.loads(o.stdout.strip().splitlines()[-1])
            except Exception:
                found = {"error": o.stdout[-200:] + o.stderr[-200:]}
            for e in entries:
                if e["property"] != prop:
                    continue
                if "error" in found:
                    res.append((e["rule"], "analysis refuses: " + found["error"][:80]))
                else:
                    hit = f"{e['rule']} {e['key']}" in found["findings"]
                    anyrule = [x for x in found["findings"] if x.startswith(e["rule"] + " ")]
                    res.append((e["rule"], "REPORTED" if hit else (f"other key: {anyrule[0]}" if anyrule else "NOT REPORTED")))
        return h[:7], subj, "ok", res
    finally:
        shutil.rmtree(tmp, ignore_errors=True)
with ThreadPoolExecutor(max_workers=8) as ex:
    for h, subj, st, res in ex.map(one, fixes):
        print(h, st, subj[:60], res)
