#!/venv/bin/python
"""Regenerate /verif/MANIFEST.json from sa/claims.py (which rules exist decides what is claimed)."""
from __future__ import annotations

import json
import subprocess
import sys
from pathlib import Path

VERIF = Path(__file__).resolve().parents[1]
sys.path.insert(0, str(VERIF))
from sa.claims import CLAIMS, NOT_APPLICABLE  # noqa: E402

props = [json.loads(l)["id"] for l in (VERIF / "properties.jsonl").read_text().splitlines() if l.strip()]
fixes = subprocess.run(["git", "-C", "/repo", "log", "--format=%H %s"], capture_output=True, text=True).stdout.splitlines()
fix_commits = [l.split()[0] for l in fixes if l.split(" ", 1)[1].startswith("fix:")]
checks = []
na = []
for p in props:
    if p in CLAIMS and (VERIF / "sa" / "rules" / f"{p.lower()}.py").exists():
        c = CLAIMS[p]
        checks.append({
            "property_id": p,
            "quick_cmd": f"/venv/bin/python sa/run.py check {p} --tier quick",
            "thorough_cmd": f"/venv/bin/python sa/run.py check {p} --tier thorough",
            "evidence_file": f"/verif/evidence/{p}.json",
            "replay_cmd_template": "/venv/bin/python sa/run.py replay {path}",
            "engine": "sa",
            "level_claimed": {"category": "other", "text": c["text"], "design_ref": c.get("ref", "DESIGN.md section 5")},
            "level_note": c["note"],
            "technique": c["technique"],
        })
    else:
        na.append({"property_id": p, "reason": NOT_APPLICABLE.get(p, "check not built yet (implementation in progress)")})
m = {
    "version": 1,
    "setup_cmd": "true",
    "hooks": {
        "guard": "SAFE_DS_STUB_GENERATOR_VERIF",
        "enable": "none needed: the checks read /repo's sources statically; no hook or instrumentation exists",
        "baseline_off_cmd": "cd /repo && /venv/bin/python -m pytest -ra -q -p no:cacheprovider --timeout=900 --continue-on-collection-errors",
        "source_commits": [],
        "add_only": True,
    },
    "engines": [{
        "name": "sa", "path": "/verif/sa",
        "serves_properties": [c["property_id"] for c in checks],
        "kind_free_text": "repository-specific static analysis: ast source model, partitioned abstract interpreter "
                          "(class sets, constants, symbolic provenance, string templates), library model derived from "
                          "the installed mypy sources, mypy-as-library typed facts; no repository code is executed",
    }],
    "checks": checks,
    "notes": "Static analysis only. `fix:` commits in /repo (unguarded repairs of genuine defects): "
             + ", ".join(c[:7] for c in reversed(fix_commits)) + ". Known findings: /verif/known_findings.json.",
    "not_applicable": na,
}
(VERIF / "MANIFEST.json").write_text(json.dumps(m, indent=1))
print(f"MANIFEST: {len(checks)} checks, {len(na)} not claimed")
