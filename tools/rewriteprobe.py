"""Rewrite probe (NOT a check): apply behaviour-preserving rewrites to a scratch copy of /repo/src and run every property's rules; any new finding is a false alarm of a recogniser (triage aid; confirmed rewrites become benign variants in sa/selftest/catalogue.py)."""
import json, os, shutil, subprocess, sys, tempfile
from concurrent.futures import ThreadPoolExecutor
VIS="api_analyzer/_ast_visitor.py"; GEN="stubs_generator/_stub_string_generator.py"; GS="stubs_generator/_generate_stubs.py"; HELP="stubs_generator/_helper.py"; GA="api_analyzer/_get_api.py"; DP="docstring_parsing/_docstring_parser.py"; MH="api_analyzer/_mypy_helpers.py"
TY="api_analyzer/_types.py"
REWRITES = [
 ("init file test via basename", GA, 'if ast_path.name == "__init__.py":', 'if ast_path.parts[-1] == "__init__.py":'),
 ("docstring from the first statement via index", "docstring_parsing/_helpers.py", '    for definition in definitions[:1]:\n        if isinstance(definition, nodes.ExpressionStmt) and isinstance(definition.expr, nodes.StrExpr):\n            full_docstring = definition.expr.value', '    if definitions:\n        first_statement = definitions[0]\n        if isinstance(first_statement, nodes.ExpressionStmt) and isinstance(first_statement.expr, nodes.StrExpr):\n            full_docstring = first_statement.expr.value'),
 ("registration guard operands swapped", GS, '        if file_path.stem == file_path.parent.name:', '        if file_path.parent.name == file_path.stem:'),
 ("matched docstrings kept in a set of ids", VIS, '            matched_docstrings: list[ResultDocstring] = []\n', '            matched_docstrings: list[ResultDocstring] = list()\n'),
 ("type-from-default condition reordered", VIS, '                if arg_type is None and (default_is_none or default_value is not None):', '                if (default_value is not None or default_is_none) and arg_type is None:'),
 ("module privacy through a local", VIS, '(qualified_import.alias is None and not is_internal(module_name))', '(qualified_import.alias is None and not module_name.startswith("_"))'),
 ("conditional branches with a tuple display", MH, '    for branch in [expr.if_expr, expr.else_expr]:', '    for branch in (expr.if_expr, expr.else_expr):'),
 ("alias of the own import via rsplit", GEN, '                if qualified_import.qualified_name.split(".")[-1] == node.name:', '                if qualified_import.qualified_name.rsplit(".", 1)[-1] == node.name:'),
 ("self type test via type()", VIS, '                        if isinstance(self_type, mp_types.Instance):', '                        if self_type is not None and isinstance(self_type, mp_types.Instance):'),
 ("missing import name tested with is not None", VIS, 'if mypy_type.type_of_any == mp_types.TypeOfAny.from_unimported_type and mypy_type.missing_import_name:', 'if mypy_type.type_of_any == mp_types.TypeOfAny.from_unimported_type and mypy_type.missing_import_name is not None:'),
 ("coroutine test reordered", VIS, '                    node.is_coroutine\n                    and isinstance(node_ret_type, mp_types.Instance)\n                    and node_ret_type.type.fullname == "typing.Coroutine"', '                    isinstance(node_ret_type, mp_types.Instance)\n                    and node.is_coroutine\n                    and node_ret_type.type.fullname == "typing.Coroutine"'),
 ("package parent via parents[0] is not used: parent twice", GS, '            corrected_module_dir = module_dir.parent\n', '            corrected_module_dir = module_dir.parent\n            corrected_module_dir = Path(corrected_module_dir)\n'),
 ("builtin class test with a set of prefixes", VIS, '            is_builtin_class = mypy_type.type.fullname.startswith(("builtins.", "typing."))', '            is_builtin_class = mypy_type.type.fullname.split(".")[0] in ("builtins", "typing")'),
 ("union items flattened in a separate statement", VIS, '            union_items = mp_types.flatten_nested_unions(mypy_type.items, handle_recursive=False)\n            return sds_types.UnionType(types=[self.mypy_type_to_abstract_type(item) for item in union_items])', '            flat_items = mp_types.flatten_nested_unions(mypy_type.items, handle_recursive=False)\n            translated = [self.mypy_type_to_abstract_type(item) for item in flat_items]\n            return sds_types.UnionType(types=translated)'),
 ("enum test extracted into a local in the walker", "api_analyzer/_ast_walker.py", '            if isinstance(node, ClassDef) and self.__is_enum(node):', '            if self.__is_enum(node) and isinstance(node, ClassDef):'),
]
PROPS=[f"C{i:02d}" for i in range(1,21)]
def run(prop, repo):
    o=subprocess.run(["/venv/bin/python","/verif/sa/run.py","variant-check",prop],env=dict(os.environ,SA_REPO=repo,SA_VARIANT="1"),capture_output=True,text=True)
    try: return json.loads(o.stdout.strip().splitlines()[-1])
    except Exception: return {"error":o.stdout[-200:]+o.stderr[-200:]}
base={}
with ThreadPoolExecutor(16) as ex:
    for p,r in zip(PROPS, ex.map(lambda p: run(p,"/repo"), PROPS)): base[p]=set(r.get("findings",[]))
for name,f,old,new in REWRITES:
    if old is None: continue
    tmp=tempfile.mkdtemp(prefix="benign_")
    shutil.copytree("/repo/src", tmp+"/src")
    p=f"{tmp}/src/safeds_stubgen/{f}"; s=open(p).read()
    if old not in s: print("ANCHOR MISSING", name); shutil.rmtree(tmp); continue
    open(p,"w").write(s.replace(old,new,1))
    import ast; ast.parse(open(p).read())
    with ThreadPoolExecutor(16) as ex:
        res=list(ex.map(lambda pp: (pp, run(pp,tmp)), PROPS))
    bad=[]
    for pp,r in res:
        if "error" in r: bad.append((pp,"ERROR "+r["error"][:100]))
        else:
            newf=set(r["findings"])-base[pp]
            if newf: bad.append((pp,sorted(newf)[:2]))
    print(("FALSE-ALARM " if bad else "silent      ")+name, bad)
    shutil.rmtree(tmp)
