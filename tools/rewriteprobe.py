"""Rewrite probe (NOT a check): apply behaviour-preserving rewrites to a scratch copy of /repo/src and run every property's rules; any new finding is a false alarm of a recogniser (triage aid; confirmed rewrites become benign variants in sa/selftest/catalogue.py)."""
import json, os, shutil, subprocess, sys, tempfile
from concurrent.futures import ThreadPoolExecutor
VIS="api_analyzer/_ast_visitor.py"; GEN="stubs_generator/_stub_string_generator.py"; GS="stubs_generator/_generate_stubs.py"; HELP="stubs_generator/_helper.py"; GA="api_analyzer/_get_api.py"; DP="docstring_parsing/_docstring_parser.py"; MH="api_analyzer/_mypy_helpers.py"
TY="api_analyzer/_types.py"
REWRITES = [
 ("receiver skip via enumerate index", GEN, '        first_loop_skipped = False\n        for parameter in parameters:\n            # Skip self parameter for functions\n            if is_instance_method and not first_loop_skipped:\n                first_loop_skipped = True\n                continue\n',
  '        for parameter_index, parameter in enumerate(parameters):\n            # Skip self parameter for functions\n            if is_instance_method and parameter_index == 0:\n                continue\n'),
 ("bool default via conditional on identity", GEN, 'default_value = "true" if param_default_value else "false"', 'default_value = "false" if not param_default_value else "true"'),
 ("variadic test as two equalities", GEN, 'if assigned_by in {ParameterAssignment.POSITIONAL_VARARG, ParameterAssignment.NAMED_VARARG}:\n                self._current_todo_msgs.add("variadic")', 'if assigned_by == ParameterAssignment.POSITIONAL_VARARG or assigned_by == ParameterAssignment.NAMED_VARARG:\n                self._current_todo_msgs.add("variadic")'),
 ("name annotation via conditional expression", GEN, '            name_annotation = ""\n            if camel_case_name != name:\n                # Memorize the changed name for the @PythonName() annotation\n                name_annotation = f"{_create_name_annotation(name)} "\n\n            # Check if it\'s a Safe-DS keyword and escape it\n            camel_case_name = _replace_if_safeds_keyword(camel_case_name)\n\n            # Create string and append to the list',
  '            name_annotation = f"{_create_name_annotation(name)} " if camel_case_name != name else ""\n\n            # Check if it\'s a Safe-DS keyword and escape it\n            camel_case_name = _replace_if_safeds_keyword(camel_case_name)\n\n            # Create string and append to the list'),
 ("parameter text joined from a list", GEN, '            parameters_data.append(\n                f"{name_annotation}{camel_case_name}{type_string}{param_value}",\n            )', '            parameters_data.append("".join([name_annotation, camel_case_name, type_string, param_value]))'),
 ("empty parameter list test first", GEN, '        inner_indentations = indentations + INDENTATION\n        if parameters_data:\n            inner_param_data = f",\\n{inner_indentations}".join(parameters_data)\n            return f"\\n{inner_indentations}{inner_param_data}\\n{indentations}"\n        return ""',
  '        if not parameters_data:\n            return ""\n        inner_indentations = indentations + INDENTATION\n        inner_param_data = f",\\n{inner_indentations}".join(parameters_data)\n        return f"\\n{inner_indentations}{inner_param_data}\\n{indentations}"'),
 ("cached docstring miss path reordered", DP, None, None),
 ("stack pop and check merged", VIS, '        function = self.__declaration_stack.pop()\n        if not isinstance(function, Function):  # pragma: no cover\n            raise AssertionError("Imbalanced push/pop on stack")  # noqa: TRY004\n\n        if len(self.__declaration_stack) > 0:\n            parent = self.__declaration_stack[-1]\n\n            # Add the data of the function',
  '        function = self.__declaration_stack.pop()\n        if not isinstance(function, Function):  # pragma: no cover\n            raise AssertionError("Imbalanced push/pop on stack")  # noqa: TRY004\n\n        if self.__declaration_stack:\n            parent = self.__declaration_stack[-1]\n\n            # Add the data of the function'),
 ("results kept test inverted", GEN, None, None),
 ("shortest reexport key as lambda with default", HELP, None, None),
 ("types sorted via sorted()", GEN, '            types = list({self._create_type_string(type_) for type_ in type_data["types"]})\n            types.sort()', '            types = sorted({self._create_type_string(type_) for type_ in type_data["types"]})'),
 ("api add_class via update", "api_analyzer/_api.py", '        self.classes[class_.id] = class_', '        self.classes.update({class_.id: class_})'),
]
PROPS=[f"C{i:02d}" for i in range(1,21)]
def run(prop, repo):
    o=subprocess.run(["/venv/bin/python","/verif/sa/run.py","variant-check",prop],env=dict(os.environ,SA_REPO=repo,SA_VARIANT="1"),capture_output=True,text=True)
    try: return json.loads(o.stdout.strip().splitlines()[-1])
    except Exception: return {"error":o.stdout[-200:]+o.stderr[-200:]}
base={}
with ThreadPoolExecutor(16) as ex:
    for p,r in zip(PROPS, ex.map(lambda p: run(p,"/repo"), PROPS)): base[p]=set(r.get("findings",[]))
for name,f,old,new in REWRITES:
    if old is None: continue
    tmp=tempfile.mkdtemp(prefix="benign_")
    shutil.copytree("/repo/src", tmp+"/src")
    p=f"{tmp}/src/safeds_stubgen/{f}"; s=open(p).read()
    if old not in s: print("ANCHOR MISSING", name); shutil.rmtree(tmp); continue
    open(p,"w").write(s.replace(old,new,1))
    import ast; ast.parse(open(p).read())
    with ThreadPoolExecutor(16) as ex:
        res=list(ex.map(lambda pp: (pp, run(pp,tmp)), PROPS))
    bad=[]
    for pp,r in res:
        if "error" in r: bad.append((pp,"ERROR "+r["error"][:100]))
        else:
            newf=set(r["findings"])-base[pp]
            if newf: bad.append((pp,sorted(newf)[:2]))
    print(("FALSE-ALARM " if bad else "silent      ")+name, bad)
    shutil.rmtree(tmp)
