"""Rewrite probe (NOT a check): apply behaviour-preserving rewrites to a scratch copy of /repo/src and run every property's rules; any new finding is a false alarm of a recogniser (triage aid; confirmed rewrites become benign variants in sa/selftest/catalogue.py)."""
import json, os, shutil, subprocess, sys, tempfile
from concurrent.futures import ThreadPoolExecutor
VIS="api_analyzer/_ast_visitor.py"; GEN="stubs_generator/_stub_string_generator.py"; GS="stubs_generator/_generate_stubs.py"; HELP="stubs_generator/_helper.py"; GA="api_analyzer/_get_api.py"; DP="docstring_parsing/_docstring_parser.py"; MH="api_analyzer/_mypy_helpers.py"
TY="api_analyzer/_types.py"
REWRITES = [
 ("constructor target guard nested", VIS, '            if not is_static and not (\n                isinstance(lvalue, mp_nodes.MemberExpr)\n                and isinstance(lvalue.expr, mp_nodes.NameExpr)\n                and getattr(lvalue.expr.node, "is_self", False)\n            ):\n                return attributes\n',
  '            if not is_static:\n                is_instance_member = (\n                    isinstance(lvalue, mp_nodes.MemberExpr)\n                    and isinstance(lvalue.expr, mp_nodes.NameExpr)\n                    and getattr(lvalue.expr.node, "is_self", False)\n                )\n                if not is_instance_member:\n                    return attributes\n'),
 ("file list sorted in place", GA, '    for file_path in sorted(root.glob(pattern="./**/*.py")):', '    python_files = list(root.glob(pattern="./**/*.py"))\n    python_files.sort()\n    for file_path in python_files:'),
 ("griffe search path as tuple, kwargs reordered", DP, 'load(package_path.name, search_paths=[package_path.parent], docstring_parser=parser)', 'load(package_path.name, docstring_parser=parser, search_paths=(package_path.parent,))'),
 ("package walk-up with a local", DP, '        while (package_path.parent / "__init__.py").is_file() and package_path.parent != package_path:\n            package_path = package_path.parent\n', '        while True:\n            parent_path = package_path.parent\n            if parent_path == package_path or not (parent_path / "__init__.py").is_file():\n                break\n            package_path = parent_path\n'),
 ("class docstring default built explicitly", DP, '        if griffe_node is None:\n            return ClassDocstring()\n', '        if griffe_node is None:\n            return ClassDocstring(description="", full_docstring="", examples=[])\n'),
 ("untyped argument merged with the Any case", VIS, '            if mypy_type is None:\n                # Mypy does not analyse every function (e.g. unreachable code or functions with @no_type_check), for\n                # those we have no type information\n                pass\n            elif isinstance(mypy_type, mp_types.AnyType) and not has_correct_type_of_any(mypy_type.type_of_any):',
  '            if mypy_type is None or (\n                isinstance(mypy_type, mp_types.AnyType) and not has_correct_type_of_any(mypy_type.type_of_any)\n            ):'),
 ("dict arity greater than one", VIS, 'elif type_name in {"dict", "Mapping"} and len(mypy_type.args) == 2:', 'elif type_name in {"dict", "Mapping"} and len(mypy_type.args) > 1:'),
 ("alias expansion nested ifs", VIS, '        if isinstance(mypy_type, mp_types.TypeAliasType) and not mypy_type.is_recursive:\n            mypy_type = mp_types.get_proper_type(mypy_type)\n', '        if isinstance(mypy_type, mp_types.TypeAliasType):\n            if not mypy_type.is_recursive:\n                mypy_type = mp_types.get_proper_type(mypy_type)\n'),
 ("Final argument through a local", VIS, '                    return sds_types.FinalType(type_=self.mypy_type_to_abstract_type(mypy_type, unanalyzed_args[0]))', '                    final_argument = unanalyzed_args[0]\n                    return sds_types.FinalType(type_=self.mypy_type_to_abstract_type(mypy_type, final_argument))'),
 ("unbound name compared with the empty string", MH, '        elif not expr.fullname:', '        elif expr.fullname == "":'),
 ("open keywords reordered", GS, 'file_path.open("w", encoding="utf-8", errors="backslashreplace")', 'file_path.open("w", errors="backslashreplace", encoding="utf-8")'),
 ("digit test on the first character with emptiness test", HELP, '    if converted_name[:1].isdigit():', '    if converted_name and converted_name[0].isdigit():'),
 ("ABC filtered before the loop", GEN, '        superclasses = class_.superclasses\n', '        superclasses = [superclass for superclass in class_.superclasses if superclass != "abc.ABC"]\n'),
 ("type variable definition test through a local", GEN, '                if attribute_type["kind"] == "TypeVarType" and attribute_type["name"] == attribute.name:\n                    continue', '                is_type_var_definition = attribute_type["kind"] == "TypeVarType" and attribute_type["name"] == attribute.name\n                if is_type_var_definition:\n                    continue'),
 ("finite test through a local", VIS, '                if isinstance(inferred_default_value, float) and not math.isfinite(inferred_default_value):', '                is_infinite = isinstance(inferred_default_value, float) and not math.isfinite(inferred_default_value)\n                if is_infinite:'),
 ("docstring lookup miss through a local result", DP, '                logging.warning(msg)\n                return None\n\n        return griffe_node', '                logging.warning(msg)\n                griffe_node = None\n                break\n\n        return griffe_node'),
]
PROPS=[f"C{i:02d}" for i in range(1,21)]
def run(prop, repo):
    o=subprocess.run(["/venv/bin/python","/verif/sa/run.py","variant-check",prop],env=dict(os.environ,SA_REPO=repo,SA_VARIANT="1"),capture_output=True,text=True)
    try: return json.loads(o.stdout.strip().splitlines()[-1])
    except Exception: return {"error":o.stdout[-200:]+o.stderr[-200:]}
base={}
with ThreadPoolExecutor(16) as ex:
    for p,r in zip(PROPS, ex.map(lambda p: run(p,"/repo"), PROPS)): base[p]=set(r.get("findings",[]))
for name,f,old,new in REWRITES:
    if old is None: continue
    tmp=tempfile.mkdtemp(prefix="benign_")
    shutil.copytree("/repo/src", tmp+"/src")
    p=f"{tmp}/src/safeds_stubgen/{f}"; s=open(p).read()
    if old not in s: print("ANCHOR MISSING", name); shutil.rmtree(tmp); continue
    open(p,"w").write(s.replace(old,new,1))
    import ast; ast.parse(open(p).read())
    with ThreadPoolExecutor(16) as ex:
        res=list(ex.map(lambda pp: (pp, run(pp,tmp)), PROPS))
    bad=[]
    for pp,r in res:
        if "error" in r: bad.append((pp,"ERROR "+r["error"][:100]))
        else:
            newf=set(r["findings"])-base[pp]
            if newf: bad.append((pp,sorted(newf)[:2]))
    print(("FALSE-ALARM " if bad else "silent      ")+name, bad)
    shutil.rmtree(tmp)
