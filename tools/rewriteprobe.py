"""Rewrite probe (NOT a check): apply behaviour-preserving rewrites to a scratch copy of /repo/src and run every property's rules; any new finding is a false alarm of a recogniser (triage aid; confirmed rewrites become benign variants in sa/selftest/catalogue.py)."""
import json, os, shutil, subprocess, sys, tempfile
from concurrent.futures import ThreadPoolExecutor
VIS="api_analyzer/_ast_visitor.py"; GEN="stubs_generator/_stub_string_generator.py"; GS="stubs_generator/_generate_stubs.py"; HELP="stubs_generator/_helper.py"; GA="api_analyzer/_get_api.py"; DP="docstring_parsing/_docstring_parser.py"; MH="api_analyzer/_mypy_helpers.py"
TY="api_analyzer/_types.py"
REWRITES = [
 ("rglob instead of glob pattern", GA, 'for file_path in root.glob(pattern="./**/*.py"):', 'for file_path in root.rglob("*.py"):'),
 ("lambda variable renamed", "api_analyzer/_api.py", '"modules": [module.to_dict() for module in sorted(self.modules.values(), key=lambda it: it.id)],', '"modules": [module.to_dict() for module in sorted(self.modules.values(), key=lambda module_: module_.id)],'),
 ("None / Literal branches swapped", VIS, '        elif isinstance(mypy_type, mp_types.NoneType):\n            return sds_types.NamedType(name="None", qname="builtins.None")\n        elif isinstance(mypy_type, mp_types.LiteralType):\n            return sds_types.LiteralType(literals=[mypy_type.value])',
  '        elif isinstance(mypy_type, mp_types.LiteralType):\n            return sds_types.LiteralType(literals=[mypy_type.value])\n        elif isinstance(mypy_type, mp_types.NoneType):\n            return sds_types.NamedType(name="None", qname="builtins.None")'),
 ("enum signature by concatenation", GEN, 'enum_signature = f"{docstring}enum {_replace_if_safeds_keyword(enum_data.name)}"', 'enum_signature = docstring + f"enum {_replace_if_safeds_keyword(enum_data.name)}"'),
 ("redundant touch removed", GS, '        Path(file_path).touch()\n\n        with file_path.open("w", encoding="utf-8") as f:', '        with file_path.open("w", encoding="utf-8") as f:'),
 ("default-is-none from the inferred value", VIS, '                default_is_none = default_value is None\n', '                default_is_none = inferred_default_value is None\n'),
 ("union to_dict as comprehension", TY, '        type_list = []\n        for t in self.types:\n            type_list.append(t.to_dict())\n\n        return {"kind": self.__class__.__name__, "types": type_list}\n\n    def __hash__(self) -> int:\n        return hash(frozenset(self.types))\n\n    def __eq__(self, other: object) -> bool:\n        if not isinstance(other, UnionType)',
  '        type_list = [t.to_dict() for t in self.types]\n\n        return {"kind": self.__class__.__name__, "types": type_list}\n\n    def __hash__(self) -> int:\n        return hash(frozenset(self.types))\n\n    def __eq__(self, other: object) -> bool:\n        if not isinstance(other, UnionType)'),
 ("reexported_by sort via sorted()", VIS, '        reexported_by.sort(key=lambda x: x.id)\n\n        # Get constructor docstring', '        reexported_by = sorted(reexported_by, key=lambda x: x.id)\n\n        # Get constructor docstring'),
 ("module header f-string split", GEN, '        module_header = f"{module_name_info}package {_replace_if_safeds_keyword_in_path(package_info_camel_case)}\\n"\n\n        # Create docstring', '        package_line = f"package {_replace_if_safeds_keyword_in_path(package_info_camel_case)}\\n"\n        module_header = module_name_info + package_line\n\n        # Create docstring'),
 ("is_static computed inline", VIS, None, None),
 ("walker visited check via early return style", "api_analyzer/_ast_walker.py", '        if node in visited_nodes:  # pragma: no cover\n            raise AssertionError("Node visited twice")\n        visited_nodes.add(node)', '        if node in visited_nodes:  # pragma: no cover\n            raise AssertionError("Node visited twice")\n        visited_nodes |= {node}'),
 ("todo flush text via list join variable", GEN, '        return indentations + f"\\n{indentations}".join(todo_msgs) + "\\n"', '        joined = f"\\n{indentations}".join(todo_msgs)\n        return indentations + joined + "\\n"'),
]
PROPS=[f"C{i:02d}" for i in range(1,21)]
def run(prop, repo):
    o=subprocess.run(["/venv/bin/python","/verif/sa/run.py","variant-check",prop],env=dict(os.environ,SA_REPO=repo,SA_VARIANT="1"),capture_output=True,text=True)
    try: return json.loads(o.stdout.strip().splitlines()[-1])
    except Exception: return {"error":o.stdout[-200:]+o.stderr[-200:]}
base={}
with ThreadPoolExecutor(16) as ex:
    for p,r in zip(PROPS, ex.map(lambda p: run(p,"/repo"), PROPS)): base[p]=set(r.get("findings",[]))
for name,f,old,new in REWRITES:
    if old is None: continue
    tmp=tempfile.mkdtemp(prefix="benign_")
    shutil.copytree("/repo/src", tmp+"/src")
    p=f"{tmp}/src/safeds_stubgen/{f}"; s=open(p).read()
    if old not in s: print("ANCHOR MISSING", name); shutil.rmtree(tmp); continue
    open(p,"w").write(s.replace(old,new,1))
    import ast; ast.parse(open(p).read())
    with ThreadPoolExecutor(16) as ex:
        res=list(ex.map(lambda pp: (pp, run(pp,tmp)), PROPS))
    bad=[]
    for pp,r in res:
        if "error" in r: bad.append((pp,"ERROR "+r["error"][:100]))
        else:
            newf=set(r["findings"])-base[pp]
            if newf: bad.append((pp,sorted(newf)[:2]))
    print(("FALSE-ALARM " if bad else "silent      ")+name, bad)
    shutil.rmtree(tmp)
