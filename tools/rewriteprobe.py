"""Rewrite probe (NOT a check): apply behaviour-preserving rewrites to a scratch copy of /repo/src and run every property's rules; any new finding is a false alarm of a recogniser (triage aid; confirmed rewrites become benign variants in sa/selftest/catalogue.py)."""
import json, os, shutil, subprocess, sys, tempfile
from concurrent.futures import ThreadPoolExecutor
VIS="api_analyzer/_ast_visitor.py"; GEN="stubs_generator/_stub_string_generator.py"; GS="stubs_generator/_generate_stubs.py"; HELP="stubs_generator/_helper.py"; GA="api_analyzer/_get_api.py"; DP="docstring_parsing/_docstring_parser.py"; MH="api_analyzer/_mypy_helpers.py"
TY="api_analyzer/_types.py"
REWRITES_ALL = [
 # fourth batch: behaviour-preserving rewrites of the code the repairs of the sixth round touched (the earlier batches are benign variants of the catalogue now)
 ("member target test operands swapped", VIS, '            if attribute.node is None and isinstance(attribute, mp_nodes.MemberExpr):', '            if isinstance(attribute, mp_nodes.MemberExpr) and attribute.node is None:'),
 ("by-name resolutions compared one by one", VIS, "                            if qname in {\n                                qualified_import.qualified_name,\n                                f\"{reexport_source.id.replace('/', '.')}.{qualified_import.qualified_name}\",\n                            } and (",
  "                            if (\n                                qname == qualified_import.qualified_name\n                                or qname == f\"{reexport_source.id.replace('/', '.')}.{qualified_import.qualified_name}\"\n                            ) and ("),
 ("member publicity through a local", VIS, '        if isinstance(parent, Class):\n            return parent.is_public\n', '        if isinstance(parent, Class):\n            class_is_public = parent.is_public\n            return class_is_public\n'),
 ("tuple fallback test negated equality", VIS, '            if fallback.fullname != "builtins.tuple":', '            if not fallback.fullname == "builtins.tuple":'),
 ("module docstring from the first statement by index", VIS, '        for definition in get_mypyfile_definitions(node)[:1]:\n            if isinstance(definition, mp_nodes.ExpressionStmt) and isinstance(definition.expr, mp_nodes.StrExpr):\n                docstring = definition.expr.value\n',
  '        definitions = get_mypyfile_definitions(node)\n        if definitions and isinstance(definitions[0], mp_nodes.ExpressionStmt) and isinstance(definitions[0].expr, mp_nodes.StrExpr):\n            docstring = definitions[0].expr.value\n'),
 ("None tested with a set like the booleans", MH, '        elif expr.name == "None":', '        elif expr.name in {"None"}:'),
 ("matched inferred docstrings tested with a comprehension list", VIS, '                            if hash(docstring.type) == hash(result_type) and not any(\n                                docstring is matched for matched in matched_docstrings\n                            ):',
  '                            already_matched = any(docstring is matched for matched in matched_docstrings)\n                            if hash(docstring.type) == hash(result_type) and not already_matched:'),
 ("type variable name via rsplit", VIS, 'name=mypy_type.name.split(".")[-1], upper_bound=type_', 'name=mypy_type.name.rsplit(".", 1)[-1], upper_bound=type_'),
 ("nested class filter with an early continue", GEN, '            if not is_internal(inner_class.name) and inner_class.name not in already_defined_names:\n                class_string = self._create_class_string(\n                    class_=inner_class,\n                    class_indentation=inner_indentations,\n                    in_reexport_module=True,\n                )\n                superclass_methods_text += f"\\n{class_string}\\n"\n                existing_names.add(inner_class.name)\n',
  '            if is_internal(inner_class.name) or inner_class.name in already_defined_names:\n                continue\n            class_string = self._create_class_string(\n                class_=inner_class,\n                class_indentation=inner_indentations,\n                in_reexport_module=True,\n            )\n            superclass_methods_text += f"\\n{class_string}\\n"\n            existing_names.add(inner_class.name)\n'),
 ("own nested class names united instead of updated", GEN, '        already_defined_names.update(inner_class.name for inner_class in class_.classes if inner_class.is_public)\n', '        already_defined_names = already_defined_names.union({inner_class.name for inner_class in class_.classes if inner_class.is_public})\n'),
 ("relocated module id with dots through a local", GS, '            qname=module.id.replace("/", "."),\n            is_module=True,', '            qname=".".join(module.id.split("/")),\n            is_module=True,'),
 ("re-exporting package spelled with dots once", VIS, "                    if qname in {reexport_name_backward, f\"{mod.id.replace('/', '.')}.{reexport_name_backward}\"}:", "                    source_package = mod.id.replace('/', '.')\n                    if qname in {reexport_name_backward, f\"{source_package}.{reexport_name_backward}\"}:"),
 ("star import resolutions compared one by one", VIS, "                                        and module_qname\n                                        in {\n                                            wildcard_import.module_name,\n                                            f\"{reexport_source.id.replace('/', '.')}.{wildcard_import.module_name}\",\n                                        }",
  "                                        and (\n                                            module_qname == wildcard_import.module_name\n                                            or module_qname == f\"{reexport_source.id.replace('/', '.')}.{wildcard_import.module_name}\"\n                                        )"),
 ("finally block searched before the else block", MH, '            if stmt.else_body:\n                return_stmts += find_return_stmts_recursive(stmt.else_body.body)\n            if stmt.finally_body:\n                return_stmts += find_return_stmts_recursive(stmt.finally_body.body)', '            if stmt.finally_body:\n                return_stmts += find_return_stmts_recursive(stmt.finally_body.body)\n            if stmt.else_body:\n                return_stmts += find_return_stmts_recursive(stmt.else_body.body)'),
]
import os as _os
REWRITES=[r for r in REWRITES_ALL if not _os.environ.get("ONLY") or any(t in r[0] for t in _os.environ["ONLY"].split(","))]
PROPS=[f"C{i:02d}" for i in range(1,21)]
def run(prop, repo):
    o=subprocess.run(["/venv/bin/python","/verif/sa/run.py","variant-check",prop],env=dict(os.environ,SA_REPO=repo,SA_VARIANT="1"),capture_output=True,text=True)
    try: return json.loads(o.stdout.strip().splitlines()[-1])
    except Exception: return {"error":o.stdout[-200:]+o.stderr[-200:]}
base={}
with ThreadPoolExecutor(16) as ex:
    for p,r in zip(PROPS, ex.map(lambda p: run(p,"/repo"), PROPS)): base[p]=set(r.get("findings",[]))
for name,f,old,new in REWRITES:
    if old is None: continue
    tmp=tempfile.mkdtemp(prefix="benign_")
    shutil.copytree("/repo/src", tmp+"/src")
    p=f"{tmp}/src/safeds_stubgen/{f}"; s=open(p).read()
    if old not in s: print("ANCHOR MISSING", name); shutil.rmtree(tmp); continue
    open(p,"w").write(s.replace(old,new,1))
    import ast; ast.parse(open(p).read())
    with ThreadPoolExecutor(16) as ex:
        res=list(ex.map(lambda pp: (pp, run(pp,tmp)), PROPS))
    bad=[]
    for pp,r in res:
        if "error" in r: bad.append((pp,"ERROR "+r["error"][:100]))
        else:
            newf=set(r["findings"])-base[pp]
            if newf: bad.append((pp,sorted(newf)[:2]))
    print(("FALSE-ALARM " if bad else "silent      ")+name, bad)
    shutil.rmtree(tmp)
