"""Rewrite probe (NOT a check): apply behaviour-preserving rewrites to a scratch copy of /repo/src and run every property's rules; any new finding is a false alarm of a recogniser (triage aid; confirmed rewrites become benign variants in sa/selftest/catalogue.py)."""
import json, os, shutil, subprocess, sys, tempfile
from concurrent.futures import ThreadPoolExecutor
VIS="api_analyzer/_ast_visitor.py"; GEN="stubs_generator/_stub_string_generator.py"; GS="stubs_generator/_generate_stubs.py"; HELP="stubs_generator/_helper.py"; GA="api_analyzer/_get_api.py"; DP="docstring_parsing/_docstring_parser.py"; MH="api_analyzer/_mypy_helpers.py"
TY="api_analyzer/_types.py"
REWRITES = [
 ("type var sort via sorted()", VIS, '                type_var_types = list(self.type_var_types)\n                # Sort for the snapshot tests\n                type_var_types.sort(key=lambda x: x.name)', '                # Sort for the snapshot tests\n                type_var_types = sorted(self.type_var_types, key=lambda x: x.name)'),
 ("warning guard with nested if", VIS, '            if (\n                code_type is not None\n                and doc_type is not None\n                and code_type != doc_type\n                and self.type_source_warning == TypeSourceWarning.WARN\n            ):\n                msg = f"Different type hint and docstring types for \'{function_id}\'."\n                logging.warning(msg)',
  '            if code_type is not None and doc_type is not None and code_type != doc_type:\n                if self.type_source_warning == TypeSourceWarning.WARN:\n                    msg = f"Different type hint and docstring types for \'{function_id}\'."\n                    logging.warning(msg)'),
 ("preference test operands swapped", VIS, 'code_type is None or self.type_source_preference == TypeSourcePreference.DOCSTRING\n            ):\n                parameters[i]', 'code_type is None or TypeSourcePreference.DOCSTRING == self.type_source_preference\n            ):\n                parameters[i]'),
 ("none result test via two locals", GEN, '            if result_type["kind"] == "NamedType" and result_type["qname"] == "builtins.None":\n                return ""', '            is_none_result = result_type["kind"] == "NamedType" and result_type["qname"] == "builtins.None"\n            if is_none_result:\n                return ""'),
 ("is_public local inlined", VIS, None, None),
 ("docstring style dispatch order", "docstring_parsing/_create_docstring_parser.py", None, None),
 ("is_internal via index", "stubs_generator/_helper.py", None, None),
 ("module id setter unchanged else-branch flipped", GEN, '        if self.currently_creating_reexport_data:\n            self.reexport_module_id = module_id\n        else:\n            self.module_id = module_id', '        if not self.currently_creating_reexport_data:\n            self.module_id = module_id\n        else:\n            self.reexport_module_id = module_id'),
 ("get module id conditions reordered", GEN, '        if get_actual_id or not self.currently_creating_reexport_data:\n            return self.module_id\n        return self.reexport_module_id', '        if self.currently_creating_reexport_data and not get_actual_id:\n            return self.reexport_module_id\n        return self.module_id'),
 ("imports sorted via sorted()", GEN, None, None),
 ("enum instance loop as comprehension", GEN, None, None),
 ("attribute publicity guard positive form", GEN, '            if not attribute.is_public:\n                continue', '            if attribute.is_public is False or not attribute.is_public:\n                continue'),
 ("griffe node lookup via elif chain to dict", DP, None, None),
 ("walker callbacks cache check", "api_analyzer/_ast_walker.py", '        methods = self._cache.get(class_name, None)\n        if methods is None:', '        methods = self._cache.get(class_name)\n        if methods is None:'),
 ("returns section truthiness to None test", DP, '        if not all_returns:\n            return []', '        if all_returns is None or not all_returns:\n            return []'),
 ("api json indent constant", "api_analyzer/_api.py", 'json.dump(self.to_dict(), f, indent=2)', 'json.dump(self.to_dict(), f, indent=2, ensure_ascii=True)'),
 ("todo message table as module constant lookup unchanged but .get", GEN, None, None),
 ("visited nodes as list", "api_analyzer/_ast_walker.py", None, None),
 ("leave_classdef len test", VIS, None, None),
]
PROPS=[f"C{i:02d}" for i in range(1,21)]
def run(prop, repo):
    o=subprocess.run(["/venv/bin/python","/verif/sa/run.py","variant-check",prop],env=dict(os.environ,SA_REPO=repo,SA_VARIANT="1"),capture_output=True,text=True)
    try: return json.loads(o.stdout.strip().splitlines()[-1])
    except Exception: return {"error":o.stdout[-200:]+o.stderr[-200:]}
base={}
with ThreadPoolExecutor(16) as ex:
    for p,r in zip(PROPS, ex.map(lambda p: run(p,"/repo"), PROPS)): base[p]=set(r.get("findings",[]))
for name,f,old,new in REWRITES:
    if old is None: continue
    tmp=tempfile.mkdtemp(prefix="benign_")
    shutil.copytree("/repo/src", tmp+"/src")
    p=f"{tmp}/src/safeds_stubgen/{f}"; s=open(p).read()
    if old not in s: print("ANCHOR MISSING", name); shutil.rmtree(tmp); continue
    open(p,"w").write(s.replace(old,new,1))
    import ast; ast.parse(open(p).read())
    with ThreadPoolExecutor(16) as ex:
        res=list(ex.map(lambda pp: (pp, run(pp,tmp)), PROPS))
    bad=[]
    for pp,r in res:
        if "error" in r: bad.append((pp,"ERROR "+r["error"][:100]))
        else:
            newf=set(r["findings"])-base[pp]
            if newf: bad.append((pp,sorted(newf)[:2]))
    print(("FALSE-ALARM " if bad else "silent      ")+name, bad)
    shutil.rmtree(tmp)
