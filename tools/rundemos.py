"""Run the demonstration of every stored seeded change against the unmodified /repo (NOT a check): each carries an independent oracle for its property and must exit 0 on HEAD - a regression net for the repairs."""
import subprocess,sys,os,tempfile,shutil,json
from concurrent.futures import ThreadPoolExecutor
from pathlib import Path
seeds=sorted(p for p in Path('/verif/seeded').iterdir() if (p/'demo.py').exists())
def one(s):
    cwd=tempfile.mkdtemp(prefix='demo_')
    try:
        r=subprocess.run(['/venv/bin/python',str(s/'demo.py')],cwd=cwd,capture_output=True,text=True,timeout=1500,env=dict(os.environ,PYTHONPATH='/repo/src',PYTHONHASHSEED='0'))
        return s.name,r.returncode,(r.stdout+r.stderr)[-400:]
    except Exception as e:
        return s.name,-1,str(e)
    finally:
        shutil.rmtree(cwd,ignore_errors=True)
with ThreadPoolExecutor(12) as ex:
    res=list(ex.map(one,seeds))
bad=[r for r in res if r[1]!=0]
print(len(res),'demos;',len(bad),'not passing on HEAD')
for n,c,o in bad: print('==',n,c); print(o)
