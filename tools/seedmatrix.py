#!/venv/bin/python
"""Re-run every check against every stored seeded change (scratch copies only; /repo is not touched) and record
which rules report it: updates seeded/<id>/meta.json (detected_by) and seeded/INDEX.json.  NOT a registered check."""
import json, subprocess, sys
from concurrent.futures import ThreadPoolExecutor
from pathlib import Path
VERIF = Path(__file__).resolve().parents[1]
seeds = sorted(p for p in (VERIF / "seeded").iterdir() if (p / "patch.diff").exists())
only = set(sys.argv[1:])
if only:
    seeds = [s for s in seeds if s.name in only]
def one(s):
    r = subprocess.run([sys.executable, str(VERIF / "tools/seedtest.py"), str(s)], capture_output=True, text=True)
    try:
        det = json.loads(r.stdout[r.stdout.index("{"):])["detected_by"]
    except Exception:
        det = {"ERROR": (r.stdout + r.stderr)[-300:]}
    return s, det
with ThreadPoolExecutor(max_workers=14) as ex:
    results = list(ex.map(one, seeds))
index_p = VERIF / "seeded" / "INDEX.json"
index = {e["id"]: e for e in json.loads(index_p.read_text())} if index_p.exists() else {}
head = subprocess.run(["git", "-C", "/repo", "rev-parse", "--short", "HEAD"], capture_output=True, text=True).stdout.strip()
for s, det in results:
    m = json.loads((s / "meta.json").read_text())
    m["detected_by"] = {k: (sorted(v) if isinstance(v, dict) else v) for k, v in det.items()}
    m["detected"] = bool(det) and "ERROR" not in det
    m["detection_run_at_repo_head"] = head
    (s / "meta.json").write_text(json.dumps(m, indent=1))
    index[s.name] = {"id": s.name, "status": "kept", "detected": m["detected"], "detected_by": m["detected_by"]}
    print(s.name, "DETECTED" if m["detected"] else "MISSED", json.dumps(m["detected_by"])[:160])
index_p.write_text(json.dumps(sorted(index.values(), key=lambda e: e["id"]), indent=1))
