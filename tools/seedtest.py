#!/venv/bin/python
"""Run the checks against seeded changes on a scratch copy of /repo/src (never touches /repo).
usage: seedtest.py <seed dir with patch.diff> [PROP ...]   (default: all implemented properties)"""
import json, os, shutil, subprocess, sys, tempfile
from pathlib import Path
VERIF = Path(__file__).resolve().parents[1]
seed = Path(sys.argv[1]); props = sys.argv[2:] or sorted(p.stem.upper() for p in (VERIF/"sa/rules").glob("c[0-9][0-9].py"))
tmp = Path(tempfile.mkdtemp(prefix="seedtest_"))
try:
    shutil.copytree("/repo/src", tmp/"src")
    r = subprocess.run(["patch", "-p1", "-s", "-d", str(tmp), "-i", str(seed/"patch.diff")], capture_output=True, text=True)
    if r.returncode: print("PATCH FAILED", r.stdout, r.stderr); sys.exit(3)
    def run(p, repo):
        env = dict(os.environ, SA_REPO=str(repo))
        o = subprocess.run([sys.executable, str(VERIF/"sa/run.py"), "variant-check", p], env=env, capture_output=True, text=True)
        try: return json.loads(o.stdout.strip().splitlines()[-1])
        except Exception: return {"error": o.stdout[-300:]+o.stderr[-300:]}
    hit = {}
    for p in props:
        base = run(p, "/repo"); var = run(p, tmp)
        if "error" in var: hit[p] = ["ANALYSIS-ERROR: "+var["error"][:200]]; continue
        new = sorted(set(var["findings"]) - set(base.get("findings", [])))
        if new:
            rules = {}
            for f in new: rules[f.split(" ")[0]] = rules.get(f.split(" ")[0], 0) + 1
            hit[p] = rules
    print(json.dumps({"seed": str(seed), "detected_by": hit}, indent=1))
finally:
    shutil.rmtree(tmp, ignore_errors=True)
