"""Store confirmed seeded changes (NOT a check): usage storeseeds.py <dir with confirmseed outputs *.json>.  Copies patch.diff, demo.py and a meta.json into /verif/seeded/<id>/ for every change whose demonstration exits 0 without and 1 with the change and whose baseline passes."""
import json,shutil,subprocess,sys
from pathlib import Path
head=subprocess.check_output(['git','-C','/repo','rev-parse','--short','HEAD'],text=True).strip()
idx_p=Path('/verif/seeded/INDEX.json'); idx=json.loads(idx_p.read_text())
have={e['id'] for e in idx}
for cj in sorted(Path(sys.argv[1]).glob('*.json')):
    try: c=json.loads(cj.read_text().strip().splitlines()[-1])
    except Exception as e: print('skip',cj.name,e); continue
    sid=c['id']; src=Path(c['seed'])
    if c.get('demo_clean')!=0 or c.get('demo_patched')!=1 or not str(c.get('baseline','')).startswith('baseline 268: passing 268'):
        print('NOT CONFIRMED',sid,c.get('demo_clean'),c.get('demo_patched'),c.get('baseline')); continue
    dst=Path('/verif/seeded')/sid; dst.mkdir(exist_ok=True)
    shutil.copy(src/'patch.diff',dst/'patch.diff'); shutil.copy(src/'demo.py',dst/'demo.py')
    m=json.loads((src/'meta.json').read_text())
    meta={"id":sid,"property":m.get('property',sid[:3]),"summary":m.get('summary',''),"needs_to_manifest":m.get('needs',''),"files":m.get('files',[]),"why_tests_pass":m.get('why_tests_pass',''),
      "origin":"written by a fresh sub-agent that was given only the property text and a scratch git worktree of /repo under /tmp (nothing from /verif)",
      "confirmed":{"how":"tools/confirmseed.py: scratch git worktree of /repo HEAD under /tmp; demo.py without the change (expect exit 0), git apply, demo.py with the change (expect exit 1), the pinned 268-test baseline with the change (tools/baseline.py), the checks on a scratch copy with the change (tools/seedtest.py); worktree removed",
        "repo_head":head,"demo_exit_without_change":0,"demo_exit_with_change":1,"baseline_with_change":c['baseline'],"demo_output_with_change_tail":c.get('demo_patched_tail','')[-300:]},
      "detected_by":{},"detected":False,"detected_at_delivery":c.get('detected_by')}
    (dst/'meta.json').write_text(json.dumps(meta,indent=1))
    if sid not in have: idx.append({"id":sid,"status":"kept","detected":False,"detected_by":{}})
    print('stored',sid)
idx_p.write_text(json.dumps(idx,indent=1))
