#!/venv/bin/python
"""Triage helper (NOT a check): run the real tool on a tiny package to demonstrate a finding at runtime.

usage: tryit.py [-nc] [--docstyle S] [--api] FILE.py [FILE2.py ...]     (files become modules of package `pkg`)
       tryit.py -c 'python source'                                   (single module pkg/mod.py)
Runs in a temp dir outside /repo and /verif and removes it.
"""
import argparse, os, shutil, subprocess, sys, tempfile, json
ap = argparse.ArgumentParser()
ap.add_argument("-c", dest="code"); ap.add_argument("-nc", action="store_true"); ap.add_argument("--docstyle", default="plaintext")
ap.add_argument("--api", action="store_true"); ap.add_argument("--extra", nargs="*", default=[]); ap.add_argument("files", nargs="*")
ap.add_argument("--init", default="")
a = ap.parse_args()
tmp = tempfile.mkdtemp(prefix="tryit_")
try:
    pkg = os.path.join(tmp, "pkg"); os.makedirs(pkg)
    open(os.path.join(pkg, "__init__.py"), "w").write(a.init.replace("\\n", "\n"))
    if a.code:
        open(os.path.join(pkg, "mod.py"), "w").write(a.code.replace("\\n", "\n"))
    for f in a.files:
        shutil.copy(f, pkg)
    out = os.path.join(tmp, "out")
    argv = ["x", "-s", pkg, "-o", out, "--docstyle", a.docstyle] + (["-nc"] if a.nc else []) + a.extra
    code = f"import sys; sys.argv={argv!r}; from safeds_stubgen.main import main; main()"
    r = subprocess.run([sys.executable, "-c", code], cwd=tmp, capture_output=True, text=True, env=dict(os.environ, PYTHONPATH=os.environ.get("TRY_SRC", "/repo/src")))
    print(r.stdout[-1500:]); print(r.stderr[-3000:])
    for root, _, fs in os.walk(out):
        for f in sorted(fs):
            p = os.path.join(root, f)
            if f.endswith(".sdsstub") or (a.api and f.endswith(".json")):
                print("=====", os.path.relpath(p, out)); print(open(p).read())
finally:
    shutil.rmtree(tmp, ignore_errors=True)
